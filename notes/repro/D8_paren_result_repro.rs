use cachelito::cache;
use std::sync::atomic::{AtomicUsize, Ordering};

static RUNS: AtomicUsize = AtomicUsize::new(0);

#[allow(unused_parens)]
#[cache]
fn flaky(x: i32) -> (Result<i32, String>) {
    let n = RUNS.fetch_add(1, Ordering::SeqCst);
    if n == 0 { Err(format!("fail {}", x)) } else { Ok(x * 2) }
}

#[test]
fn err_is_not_cached_for_a_parenthesised_result_type() {
    assert!(flaky(21).is_err());
    // the Err must not have been stored: the body runs again and now succeeds
    assert_eq!(flaky(21), Ok(42));
    assert_eq!(RUNS.load(Ordering::SeqCst), 2);
}
