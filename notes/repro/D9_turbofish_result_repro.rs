// Reproduction of D9 (run as tests/turbofish_repro.rs of the cachelito crate): on a9b398f/2d4cca5 the second call
// returns the cached Err; with the fix the body runs again.
use cachelito::cache;
use std::sync::atomic::{AtomicUsize, Ordering};

static RUNS: AtomicUsize = AtomicUsize::new(0);

#[cache]
fn flaky(x: i32) -> Result::<i32, String> {
    let n = RUNS.fetch_add(1, Ordering::SeqCst);
    if n == 0 { Err(format!("fail {}", x)) } else { Ok(x * 2) }
}

#[test]
fn err_is_not_cached_for_a_turbofish_result_type() {
    assert!(flaky(21).is_err());
    assert_eq!(flaky(21), Ok(42));
    assert_eq!(RUNS.load(Ordering::SeqCst), 2);
}
