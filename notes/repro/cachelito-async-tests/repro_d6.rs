//! D6: async ARC / TLRU eviction score uses inverted position weight: among equally popular
//! entries the MOST recently used one is evicted.
use cachelito_async::cache_async;
use std::sync::atomic::{AtomicUsize, Ordering};

static ARC_EXEC: [AtomicUsize; 3] = [AtomicUsize::new(0), AtomicUsize::new(0), AtomicUsize::new(0)];
static TLRU_EXEC: [AtomicUsize; 3] = [AtomicUsize::new(0), AtomicUsize::new(0), AtomicUsize::new(0)];

#[cache_async(policy = "arc", limit = 2, name = "d6_arc_fn")]
async fn d6_arc(k: usize) -> usize {
    ARC_EXEC[k].fetch_add(1, Ordering::SeqCst);
    k
}

#[cache_async(policy = "tlru", limit = 2, name = "d6_tlru_fn")]
async fn d6_tlru(k: usize) -> usize {
    TLRU_EXEC[k].fetch_add(1, Ordering::SeqCst);
    k
}

fn snap(c: &[AtomicUsize; 3]) -> [usize; 3] {
    [c[0].load(Ordering::SeqCst), c[1].load(Ordering::SeqCst), c[2].load(Ordering::SeqCst)]
}

const A: usize = 0;
const B: usize = 1;
const C: usize = 2;

#[tokio::test]
async fn d6_async_arc_evicts_least_recent_among_equal_frequency() {
    d6_arc(A).await;
    d6_arc(B).await;
    d6_arc(A).await; // hit a (freq 1)
    d6_arc(B).await; // hit b (freq 1), b is now the most recently used
    assert_eq!(snap(&ARC_EXEC), [1, 1, 0]);
    d6_arc(C).await; // evicts one of a/b: should be a
    d6_arc(B).await; // must be a hit
    let s = snap(&ARC_EXEC);
    println!("D6 arc: executions [a,b,c] after a,b,a,b,c,b = {:?}", s);
    assert_eq!(s, [1, 1, 1], "ARC evicted the most recently used 'b' (executions [a,b,c] = {:?})", s);
}

#[tokio::test]
async fn d6_async_tlru_evicts_least_recent_among_equal_frequency() {
    d6_tlru(A).await;
    d6_tlru(B).await;
    d6_tlru(A).await;
    d6_tlru(B).await;
    assert_eq!(snap(&TLRU_EXEC), [1, 1, 0]);
    d6_tlru(C).await;
    d6_tlru(B).await;
    let s = snap(&TLRU_EXEC);
    println!("D6 tlru: executions [a,b,c] after a,b,a,b,c,b = {:?}", s);
    assert_eq!(s, [1, 1, 1], "TLRU evicted the most recently used 'b' (executions [a,b,c] = {:?})", s);
}
