//! D5: async LRU with max_memory but no entry limit: hits do not refresh recency
//! (touch guarded by `self.limit.is_some()`), so memory eviction behaves as FIFO.
use cachelito_async::cache_async;
use std::sync::atomic::{AtomicUsize, Ordering};

static EXEC_A: AtomicUsize = AtomicUsize::new(0);
static EXEC_B: AtomicUsize = AtomicUsize::new(0);
static EXEC_C: AtomicUsize = AtomicUsize::new(0);

// each value: size_of::<String>() (24) + capacity 100 = 124 bytes; max_memory 300 -> 2 fit, 3rd overflows
#[cache_async(policy = "lru", max_memory = 300, name = "d5_lru_mem_fn")]
async fn d5_lru_mem(key: String) -> String {
    match key.as_str() {
        "a" => EXEC_A.fetch_add(1, Ordering::SeqCst),
        "b" => EXEC_B.fetch_add(1, Ordering::SeqCst),
        _ => EXEC_C.fetch_add(1, Ordering::SeqCst),
    };
    "x".repeat(100)
}

fn counts() -> (usize, usize, usize) {
    (
        EXEC_A.load(Ordering::SeqCst),
        EXEC_B.load(Ordering::SeqCst),
        EXEC_C.load(Ordering::SeqCst),
    )
}

#[tokio::test]
async fn d5_async_lru_memory_only_evicts_least_recently_used() {
    use cachelito_core::MemoryEstimator;
    assert_eq!("x".repeat(100).clone().estimate_memory(), 124);

    d5_lru_mem("a".to_string()).await;
    d5_lru_mem("b".to_string()).await;
    assert_eq!(counts(), (1, 1, 0));
    d5_lru_mem("a".to_string()).await; // hit: a becomes most recently used
    assert_eq!(counts(), (1, 1, 0), "third call must be a hit");
    d5_lru_mem("c".to_string()).await; // memory overflow -> must evict b (LRU)
    assert_eq!(counts(), (1, 1, 1));
    d5_lru_mem("a".to_string()).await; // must still be cached
    let after = counts();
    println!("D5: executions (a,b,c) after a,b,a,c,a = {:?}", after);
    assert_eq!(
        after,
        (1, 1, 1),
        "LRU evicted the most recently used entry 'a' instead of 'b': executions (a,b,c) = {:?}",
        after
    );
    // and b must have been the one evicted
    d5_lru_mem("b".to_string()).await;
    assert_eq!(counts().1, 2, "b should have been evicted");
}
