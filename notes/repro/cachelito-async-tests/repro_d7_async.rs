//! D7 (async): "Err is never cached" only holds for the literal spellings `Result<..>` / `std::result::Result<..>`.
use cachelito_async::cache_async;
use std::sync::atomic::{AtomicUsize, Ordering};

type R = Result<i32, String>;

macro_rules! case {
    ($fname:ident, $ctr:ident, $ret:ty) => {
        static $ctr: AtomicUsize = AtomicUsize::new(0);
        #[cache_async]
        async fn $fname(x: i32) -> $ret {
            if $ctr.fetch_add(1, Ordering::SeqCst) == 0 {
                Err("transient".to_string())
            } else {
                Ok(x * 2)
            }
        }
    };
}

case!(plain, C_PLAIN, Result<i32, String>);
case!(std_path, C_STD, std::result::Result<i32, String>);
case!(core_path, C_CORE, core::result::Result<i32, String>);
case!(abs_std_path, C_ABS_STD, ::std::result::Result<i32, String>);
case!(abs_core_path, C_ABS_CORE, ::core::result::Result<i32, String>);
case!(alias, C_ALIAS, R);

macro_rules! check {
    ($name:expr, $f:ident, $ctr:ident) => {{
        let first = $f(21).await;
        let second = $f(21).await;
        let execs = $ctr.load(Ordering::SeqCst);
        println!("D7 async {}: first={:?} second={:?} executions={}", $name, first, second, execs);
        assert!(first.is_err());
        assert_eq!(
            (second.clone(), execs),
            (Ok(42), 2),
            "{}: Err was cached: second call returned {:?} with {} executions",
            $name, second, execs
        );
    }};
}

#[tokio::test]
async fn d7_async_control_plain_result() {
    check!("Result<..>", plain, C_PLAIN);
}
#[tokio::test]
async fn d7_async_control_std_result_result() {
    check!("std::result::Result<..>", std_path, C_STD);
}
#[tokio::test]
async fn d7_async_core_result_result() {
    check!("core::result::Result<..>", core_path, C_CORE);
}
#[tokio::test]
async fn d7_async_abs_std_result_result() {
    check!("::std::result::Result<..>", abs_std_path, C_ABS_STD);
}
#[tokio::test]
async fn d7_async_abs_core_result_result() {
    check!("::core::result::Result<..>", abs_core_path, C_ABS_CORE);
}
#[tokio::test]
async fn d7_async_type_alias() {
    check!("type alias R", alias, C_ALIAS);
}
