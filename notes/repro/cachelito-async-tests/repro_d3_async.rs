//! D3 (async analogue): clear callback clears DashMap and queue in two steps; a concurrent insert
//! in between leaves an entry stored but untracked by the queue (it can never be evicted).
use cachelito_async::cache_async;
use std::sync::atomic::{AtomicBool, AtomicUsize, Ordering};
use std::sync::{Arc, Mutex};
use std::thread;
use std::time::Duration;

#[cache_async(limit = 5, tags = ["d3a_tag"], name = "d3a_limited_fn")]
async fn d3a_limited_fn(x: u64) -> u64 {
    x ^ 0x5555
}

fn stored_keys() -> Vec<String> {
    let v = Mutex::new(Vec::new());
    assert!(cachelito_core::invalidate_with("d3a_limited_fn", |k| {
        v.lock().unwrap().push(k.to_string());
        false
    }));
    v.into_inner().unwrap()
}

fn env(name: &str, default: u64) -> u64 {
    std::env::var(name).ok().and_then(|s| s.parse().ok()).unwrap_or(default)
}

#[tokio::test(flavor = "multi_thread", worker_threads = 2)]
async fn d3_async_clear_races_with_insert_leaves_untracked_entries() {
    let _ = d3a_limited_fn(u64::MAX).await; // register callbacks
    let callers = env("D3_CALLERS", 32) as usize;
    let invalidators = env("D3_INVALIDATORS", 2) as usize;
    let secs = env("D3_SECS", 5);
    let rounds = env("D3_ROUNDS", 6);
    let handle = tokio::runtime::Handle::current();

    let next = Arc::new(AtomicUsize::new(0));
    for round in 0..rounds {
        let stop = Arc::new(AtomicBool::new(false));
        let mut hs = Vec::new();
        for _ in 0..callers {
            let stop = stop.clone();
            let next = next.clone();
            let handle = handle.clone();
            hs.push(thread::spawn(move || {
                handle.block_on(async {
                    while !stop.load(Ordering::Relaxed) {
                        let k = next.fetch_add(1, Ordering::Relaxed) as u64;
                        let _ = d3a_limited_fn(k).await;
                    }
                })
            }));
        }
        for _ in 0..invalidators {
            let stop = stop.clone();
            hs.push(thread::spawn(move || {
                while !stop.load(Ordering::Relaxed) {
                    cachelito_core::invalidate_by_tag("d3a_tag");
                }
            }));
        }
        tokio::time::sleep(Duration::from_secs(secs)).await;
        stop.store(true, Ordering::SeqCst);
        for h in hs {
            h.join().unwrap();
        }

        let after_race = stored_keys().len();
        // 100 further sequential calls with new keys: a healthy FIFO cache then holds exactly the last 5 of them
        let base = (1u64 << 40) + round * 1000;
        for i in 0..100 {
            let _ = d3a_limited_fn(base + i).await;
        }
        let keys = stored_keys();
        let immortal: Vec<&String> = keys
            .iter()
            .filter(|k| k.parse::<u64>().map(|n| n < base + 95).unwrap_or(true))
            .collect();
        println!(
            "D3-async round {}: total calls={} stored after race={} stored after 100 more sequential calls={} (limit 5), of which not among the last 5 inserted: {:?}",
            round, next.load(Ordering::SeqCst), after_race, keys.len(), immortal
        );
        assert!(
            immortal.is_empty() && keys.len() <= 5,
            "untracked entries survive 100 further inserts into a limit-5 FIFO cache: {:?} (stored total {})",
            immortal, keys.len()
        );
    }
}
