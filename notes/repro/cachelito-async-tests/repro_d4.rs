//! D4: async invalidate_on: a stale entry is never replaced by the freshly computed value
//! (AsyncGlobalCache::insert refuses to overwrite an existing key) -> every call re-executes forever.
use cachelito_async::cache_async;
use std::sync::atomic::{AtomicI32, Ordering};

static EXEC: AtomicI32 = AtomicI32::new(0);

// first computed value is 1 (stale), all later computed values are >= 2 (fresh)
fn is_stale(_k: &String, v: &i32) -> bool {
    *v < 2
}

#[cache_async(invalidate_on = is_stale, name = "d4_async_fn")]
async fn d4_async_fn(key: String) -> i32 {
    let _ = key;
    EXEC.fetch_add(1, Ordering::SeqCst) + 1
}

#[tokio::test]
async fn d4_async_stale_entry_is_replaced_by_fresh_value() {
    let v1 = d4_async_fn("k".to_string()).await;
    assert_eq!((v1, EXEC.load(Ordering::SeqCst)), (1, 1));
    // cached 1 is stale -> body re-runs -> returns 2, which should replace the stale entry
    let v2 = d4_async_fn("k".to_string()).await;
    assert_eq!((v2, EXEC.load(Ordering::SeqCst)), (2, 2));
    // fresh value 2 should now be served from the cache
    let mut vals = Vec::new();
    for _ in 0..5 {
        vals.push(d4_async_fn("k".to_string()).await);
    }
    let execs = EXEC.load(Ordering::SeqCst);
    println!("D4 async: values after refresh = {:?}, executions = {}", vals, execs);
    assert_eq!(
        execs, 2,
        "body re-executed on every call after a stale entry was detected: executions = {}, values = {:?}",
        execs, vals
    );
    assert_eq!(vals, vec![2; 5]);
}
