//! D2: lock-order inversion between evicting insert (queue lock -> store write lock)
//! and invalidate_with callback (store write lock -> queue lock).
use cachelito::cache;
use std::sync::mpsc;
use std::thread;
use std::time::Duration;

#[cache(limit = 1, name = "d2_evicting_fn")]
fn d2_evicting_fn(x: u64) -> u64 {
    x.wrapping_mul(3)
}

#[test]
fn d2_insert_eviction_vs_invalidate_with_deadlock() {
    const N: u64 = 200_000;
    // make sure callbacks are registered
    let _ = d2_evicting_fn(u64::MAX);
    assert!(cachelito_core::invalidate_with("d2_evicting_fn", |_k| false));

    let (tx, rx) = mpsc::channel::<&'static str>();

    let tx1 = tx.clone();
    thread::spawn(move || {
        for i in 0..N {
            let _ = d2_evicting_fn(i);
        }
        let _ = tx1.send("caller");
    });
    let tx2 = tx.clone();
    thread::spawn(move || {
        for _ in 0..N {
            cachelito_core::invalidate_with("d2_evicting_fn", |_k| true);
        }
        let _ = tx2.send("invalidator");
    });
    drop(tx);

    let mut done = Vec::new();
    for _ in 0..2 {
        match rx.recv_timeout(Duration::from_secs(20)) {
            Ok(who) => done.push(who),
            Err(e) => panic!(
                "DEADLOCK suspected: threads finished so far = {:?}, waiting gave {:?} after 20 s",
                done, e
            ),
        }
    }
}
