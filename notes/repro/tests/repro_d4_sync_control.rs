//! D4 control: the same scenario with the sync macro behaves as documented.
use cachelito::cache;
use std::sync::atomic::{AtomicI32, Ordering};

static EXEC_G: AtomicI32 = AtomicI32::new(0);
static EXEC_T: AtomicI32 = AtomicI32::new(0);

fn is_stale(_k: &String, v: &i32) -> bool {
    *v < 2
}

#[cache(invalidate_on = is_stale, name = "d4_sync_global_fn")]
fn d4_sync_global(key: String) -> i32 {
    let _ = key;
    EXEC_G.fetch_add(1, Ordering::SeqCst) + 1
}

#[cache(scope = "thread", invalidate_on = is_stale, name = "d4_sync_thread_fn")]
fn d4_sync_thread(key: String) -> i32 {
    let _ = key;
    EXEC_T.fetch_add(1, Ordering::SeqCst) + 1
}

#[test]
fn d4_control_sync_global() {
    assert_eq!(d4_sync_global("k".to_string()), 1);
    assert_eq!(d4_sync_global("k".to_string()), 2);
    let vals: Vec<i32> = (0..5).map(|_| d4_sync_global("k".to_string())).collect();
    println!("D4 sync global: values = {:?}, executions = {}", vals, EXEC_G.load(Ordering::SeqCst));
    assert_eq!(EXEC_G.load(Ordering::SeqCst), 2);
    assert_eq!(vals, vec![2; 5]);
}

#[test]
fn d4_control_sync_thread() {
    assert_eq!(d4_sync_thread("k".to_string()), 1);
    assert_eq!(d4_sync_thread("k".to_string()), 2);
    let vals: Vec<i32> = (0..5).map(|_| d4_sync_thread("k".to_string())).collect();
    println!("D4 sync thread: values = {:?}, executions = {}", vals, EXEC_T.load(Ordering::SeqCst));
    assert_eq!(EXEC_T.load(Ordering::SeqCst), 2);
    assert_eq!(vals, vec![2; 5]);
}
