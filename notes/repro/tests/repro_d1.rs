//! D1: thread-local cache with limit + LFU/ARC/TLRU panics on eviction (RefCell double borrow).
use cachelito::cache;

#[cache(scope = "thread", limit = 2, policy = "lfu")]
fn f_lfu(x: u32) -> u32 {
    x + 1
}

#[cache(scope = "thread", limit = 2, policy = "arc")]
fn f_arc(x: u32) -> u32 {
    x + 1
}

#[cache(scope = "thread", limit = 2, policy = "tlru")]
fn f_tlru(x: u32) -> u32 {
    x + 1
}

// controls
#[cache(scope = "thread", limit = 2, policy = "lru")]
fn f_lru(x: u32) -> u32 {
    x + 1
}

#[cache(scope = "thread", limit = 2, policy = "fifo")]
fn f_fifo(x: u32) -> u32 {
    x + 1
}

#[test]
fn d1_thread_local_lfu_third_distinct_call() {
    assert_eq!(f_lfu(1), 2);
    assert_eq!(f_lfu(2), 3);
    assert_eq!(f_lfu(3), 4); // evicts -> suspected panic
    assert_eq!(f_lfu(4), 5);
}

#[test]
fn d1_thread_local_arc_third_distinct_call() {
    assert_eq!(f_arc(1), 2);
    assert_eq!(f_arc(2), 3);
    assert_eq!(f_arc(3), 4);
    assert_eq!(f_arc(4), 5);
}

#[test]
fn d1_thread_local_tlru_third_distinct_call() {
    assert_eq!(f_tlru(1), 2);
    assert_eq!(f_tlru(2), 3);
    assert_eq!(f_tlru(3), 4);
    assert_eq!(f_tlru(4), 5);
}

#[test]
fn d1_control_thread_local_lru_fifo() {
    for i in 0..10 {
        assert_eq!(f_lru(i), i + 1);
        assert_eq!(f_fifo(i), i + 1);
    }
}
