//! D3: non-atomic clear (store cleared and queue cleared in two critical sections):
//! a concurrent insert can leave an entry stored but untracked by the queue -> limit exceeded forever.
//! The race is rare (a handful of hits per 5 s on 16 cores), so run several rounds (max ~30 s).
use cachelito::cache;
use std::sync::atomic::{AtomicBool, AtomicUsize, Ordering};
use std::sync::Arc;
use std::thread;
use std::time::Duration;

#[cache(limit = 5, tags = ["d3_tag"], name = "d3_limited_fn")]
fn d3_limited_fn(x: u64) -> u64 {
    x ^ 0x5555
}

fn stored_entries() -> usize {
    let c = AtomicUsize::new(0);
    assert!(cachelito_core::invalidate_with("d3_limited_fn", |_k| {
        c.fetch_add(1, Ordering::SeqCst);
        false
    }));
    c.load(Ordering::SeqCst)
}

fn env(name: &str, default: u64) -> u64 {
    std::env::var(name).ok().and_then(|s| s.parse().ok()).unwrap_or(default)
}

#[test]
fn d3_clear_races_with_insert_leaves_untracked_entries() {
    let _ = d3_limited_fn(u64::MAX); // register callbacks
    let callers = env("D3_CALLERS", 32) as usize;
    let invalidators = env("D3_INVALIDATORS", 2) as usize;
    let secs = env("D3_SECS", 5);
    let rounds = env("D3_ROUNDS", 6);

    let next = Arc::new(AtomicUsize::new(0));
    for round in 0..rounds {
        let stop = Arc::new(AtomicBool::new(false));
        let mut hs = Vec::new();
        for _ in 0..callers {
            let stop = stop.clone();
            let next = next.clone();
            hs.push(thread::spawn(move || {
                while !stop.load(Ordering::Relaxed) {
                    let k = next.fetch_add(1, Ordering::Relaxed) as u64;
                    let _ = d3_limited_fn(k);
                }
            }));
        }
        for _ in 0..invalidators {
            let stop = stop.clone();
            hs.push(thread::spawn(move || {
                while !stop.load(Ordering::Relaxed) {
                    cachelito_core::invalidate_by_tag("d3_tag");
                }
            }));
        }
        thread::sleep(Duration::from_secs(secs));
        stop.store(true, Ordering::SeqCst);
        for h in hs {
            h.join().unwrap();
        }

        let after_race = stored_entries();
        // 100 further sequential calls with new keys: a healthy cache is back to exactly `limit` entries
        let base = (1u64 << 40) + round * 1000;
        for i in 0..100 {
            let _ = d3_limited_fn(base + i);
        }
        let after_more = stored_entries();
        println!(
            "D3 round {}: callers={} invalidators={} total calls={} stored after race={} stored after 100 more sequential calls={} (limit 5)",
            round, callers, invalidators, next.load(Ordering::SeqCst), after_race, after_more
        );
        assert!(
            after_more <= 5,
            "limit 5 exceeded and never recovers: {} entries stored after 100 further sequential calls ({} right after race)",
            after_more, after_race
        );
    }
}
