//! D7: "Err is never cached" only holds for the literal spellings `Result<..>` / `std::result::Result<..>`.
use cachelito::cache;
use std::sync::atomic::{AtomicUsize, Ordering};

type R = Result<i32, String>;

macro_rules! case {
    ($fname:ident, $ctr:ident, $ret:ty) => {
        static $ctr: AtomicUsize = AtomicUsize::new(0);
        #[cache]
        fn $fname(x: i32) -> $ret {
            // fails on first execution, succeeds afterwards
            if $ctr.fetch_add(1, Ordering::SeqCst) == 0 {
                Err("transient".to_string())
            } else {
                Ok(x * 2)
            }
        }
    };
}

case!(plain, C_PLAIN, Result<i32, String>);
case!(std_path, C_STD, std::result::Result<i32, String>);
case!(core_path, C_CORE, core::result::Result<i32, String>);
case!(abs_std_path, C_ABS_STD, ::std::result::Result<i32, String>);
case!(abs_core_path, C_ABS_CORE, ::core::result::Result<i32, String>);
case!(alias, C_ALIAS, R);

fn check(name: &str, f: fn(i32) -> Result<i32, String>, ctr: &AtomicUsize) {
    let first = f(21);
    let second = f(21);
    let execs = ctr.load(Ordering::SeqCst);
    println!("D7 sync {}: first={:?} second={:?} executions={}", name, first, second, execs);
    assert!(first.is_err());
    assert_eq!(
        (second.clone(), execs),
        (Ok(42), 2),
        "{}: Err was cached: second call returned {:?} with {} executions",
        name, second, execs
    );
}

#[test]
fn d7_control_plain_result() {
    check("Result<..>", plain, &C_PLAIN);
}
#[test]
fn d7_control_std_result_result() {
    check("std::result::Result<..>", std_path, &C_STD);
}
#[test]
fn d7_core_result_result() {
    check("core::result::Result<..>", core_path, &C_CORE);
}
#[test]
fn d7_abs_std_result_result() {
    check("::std::result::Result<..>", abs_std_path, &C_ABS_STD);
}
#[test]
fn d7_abs_core_result_result() {
    check("::core::result::Result<..>", abs_core_path, &C_ABS_CORE);
}
#[test]
fn d7_type_alias() {
    check("type alias R", alias, &C_ALIAS);
}
