// mirfacts: a rule-free fact extractor. Injected as RUSTC_WORKSPACE_WRAPPER under
// `cargo +nightly check`; for every non-proc-macro, non-build-script crate it compiles it writes
// one JSON file with the `mir_built` bodies (resolved callees, types, constants, spans), ADT
// layouts, statics and trait impls, then lets compilation continue normally.
#![feature(rustc_private)]

extern crate rustc_abi;
extern crate rustc_driver;
extern crate rustc_hir;
extern crate rustc_interface;
extern crate rustc_middle;
extern crate rustc_session;
extern crate rustc_span;

use rustc_driver::{Callbacks, Compilation};
use rustc_hir::def::DefKind;
use rustc_hir::def_id::{DefId, LocalDefId};
use rustc_middle::mir::interpret::{GlobalAlloc, Scalar};
use rustc_middle::mir::{
    AggregateKind, BasicBlock, Body, Const, ConstValue, Operand, Place, PlaceElem, Rvalue,
    StatementKind, TerminatorKind, UnwindAction,
};
use rustc_middle::ty::print::{with_crate_prefix, with_no_trimmed_paths, with_no_visible_paths};
use rustc_middle::ty::{self, Ty, TyCtxt, TypingEnv};
use rustc_span::Span;
use std::fmt::Write as _;

fn esc(s: &str) -> String {
    let mut o = String::with_capacity(s.len() + 2);
    o.push('"');
    for c in s.chars() {
        match c {
            '"' => o.push_str("\\\""),
            '\\' => o.push_str("\\\\"),
            '\n' => o.push_str("\\n"),
            '\r' => o.push_str("\\r"),
            '\t' => o.push_str("\\t"),
            c if (c as u32) < 0x20 => {
                let _ = write!(o, "\\u{:04x}", c as u32);
            }
            c => o.push(c),
        }
    }
    o.push('"');
    o
}

struct Cx<'tcx> {
    tcx: TyCtxt<'tcx>,
}

impl<'tcx> Cx<'tcx> {
    fn fixc(&self, s: String) -> String {
        // local items print as `crate::a::b`; substitute the crate name so that paths are the
        // same whether an item is seen from its own crate or from a dependent one
        if !s.contains("crate::") {
            return s;
        }
        let cname = self.tcx.crate_name(rustc_hir::def_id::LOCAL_CRATE).to_string();
        let mut o = String::with_capacity(s.len() + 16);
        let b = s.as_bytes();
        let mut i = 0;
        while i < b.len() {
            if s[i..].starts_with("crate::")
                && (i == 0 || !(b[i - 1].is_ascii_alphanumeric() || b[i - 1] == b'_'))
            {
                o.push_str(&cname);
                o.push_str("::");
                i += 7;
            } else {
                let ch = s[i..].chars().next().unwrap();
                o.push(ch);
                i += ch.len_utf8();
            }
        }
        o
    }
    fn path(&self, d: DefId) -> String {
        let s = with_crate_prefix!(with_no_visible_paths!(with_no_trimmed_paths!(self.tcx.def_path_str(d))));
        self.fixc(s)
    }
    /// unique id: crate name + verbose def path (with disambiguators)
    fn id(&self, d: DefId) -> String {
        format!(
            "{}{}",
            self.tcx.crate_name(d.krate),
            self.tcx.def_path(d).to_string_no_crate_verbose()
        )
    }
    fn ty_s(&self, t: Ty<'tcx>) -> String {
        let s = with_crate_prefix!(with_no_visible_paths!(with_no_trimmed_paths!(format!("{}", t))));
        self.fixc(s)
    }
    fn macros_s(&self, sp: Span) -> String {
        // names of the macros in the expansion chain of a span, innermost first (e.g. ["assert","debug_assert"])
        let mut names: Vec<String> = Vec::new();
        let mut cur = sp;
        let mut guard = 0;
        while cur.from_expansion() && guard < 16 {
            let ed = cur.ctxt().outer_expn_data();
            if let rustc_span::ExpnKind::Macro(_, name) = ed.kind {
                names.push(esc(&name.to_string()));
            }
            cur = ed.call_site;
            guard += 1;
        }
        format!("[{}]", names.join(","))
    }
    fn span_s(&self, sp: Span) -> String {
        // For code coming out of a macro, report the outermost call site (what the user wrote),
        // and say so with a trailing '!'.
        let exp = sp.from_expansion();
        let sp2 = if exp { sp.source_callsite() } else { sp };
        let sm = self.tcx.sess.source_map();
        let loc = sm.lookup_char_pos(sp2.lo());
        let f = match &loc.file.name {
            rustc_span::FileName::Real(r) => match r.local_path() {
                Some(p) => p.display().to_string(),
                None => format!("{:?}", r),
            },
            other => format!("{:?}", other),
        };
        format!("{}:{}{}", f, loc.line, if exp { "!" } else { "" })
    }

    /// ADT paths mentioned anywhere inside a type (used by the analysis to recognise guards).
    fn ty_adts(&self, t: Ty<'tcx>) -> Vec<String> {
        let mut v: Vec<String> = Vec::new();
        for ga in t.walk() {
            if let Some(t) = ga.as_type() {
                match t.kind() {
                    ty::Adt(def, _) => {
                        let p = self.path(def.did());
                        if !v.contains(&p) {
                            v.push(p);
                        }
                    }
                    ty::Closure(d, _) => {
                        let p = format!("closure:{}", self.id(*d));
                        if !v.contains(&p) {
                            v.push(p);
                        }
                    }
                    ty::Coroutine(d, _) => {
                        let p = format!("coroutine:{}", self.id(*d));
                        if !v.contains(&p) {
                            v.push(p);
                        }
                    }
                    ty::Dynamic(..) => {
                        let p = "dyn".to_string();
                        if !v.contains(&p) {
                            v.push(p);
                        }
                    }
                    _ => {}
                }
            }
        }
        v
    }

    fn place(&self, body: &Body<'tcx>, p: &Place<'tcx>) -> String {
        let mut s = format!("{{\"l\":{}", p.local.as_usize());
        if !p.projection.is_empty() {
            s.push_str(",\"proj\":[");
            let mut pty = rustc_middle::mir::PlaceTy::from_ty(body.local_decls[p.local].ty);
            let mut first = true;
            for elem in p.projection.iter() {
                if !first {
                    s.push(',');
                }
                first = false;
                match elem {
                    PlaceElem::Deref => s.push_str("\"deref\""),
                    PlaceElem::Field(f, _) => {
                        let mut name = format!("{}", f.as_usize());
                        let mut on = String::new();
                        match pty.ty.kind() {
                            ty::Adt(def, _) => {
                                on = self.path(def.did());
                                let vi = pty.variant_index.unwrap_or(rustc_abi::FIRST_VARIANT);
                                if def.is_struct() || def.is_enum() || def.is_union() {
                                    if let Some(v) = def.variants().get(vi) {
                                        if let Some(fd) = v.fields.get(f) {
                                            name = fd.name.to_string();
                                        }
                                    }
                                }
                            }
                            _ => {}
                        }
                        match pty.ty.kind() {
                            ty::Tuple(_) => on = "tuple".to_string(),
                            ty::Closure(d, _) => on = format!("closure:{}", self.id(*d)),
                            ty::Coroutine(d, _) => on = format!("coroutine:{}", self.id(*d)),
                            _ => {}
                        }
                        let _ = write!(s, "{{\"f\":{},\"name\":{},\"on\":{}}}", f.as_usize(), esc(&name), esc(&on));
                    }
                    PlaceElem::Downcast(sym, vi) => {
                        let n = sym.map(|x| x.to_string()).unwrap_or_default();
                        let _ = write!(s, "{{\"dc\":{},\"vi\":{}}}", esc(&n), vi.as_usize());
                    }
                    PlaceElem::Index(l) => {
                        let _ = write!(s, "{{\"idx\":{}}}", l.as_usize());
                    }
                    PlaceElem::ConstantIndex { offset, from_end, .. } => {
                        let _ = write!(s, "{{\"cidx\":{},\"from_end\":{}}}", offset, from_end);
                    }
                    PlaceElem::Subslice { .. } => s.push_str("\"subslice\""),
                    PlaceElem::OpaqueCast(_) => s.push_str("\"opaque\""),
                    PlaceElem::UnwrapUnsafeBinder(_) => s.push_str("\"unbinder\""),
                }
                pty = pty.projection_ty(self.tcx, elem);
            }
            s.push(']');
        }
        s.push('}');
        s
    }

    fn fn_ref(&self, owner: LocalDefId, def: DefId, args: ty::GenericArgsRef<'tcx>) -> String {
        let tcx = self.tcx;
        let path = self.path(def);
        let mut s = format!("{{\"path\":{},\"id\":{}", esc(&path), esc(&self.id(def)));
        // substs
        s.push_str(",\"substs\":[");
        let mut first = true;
        let mut closures: Vec<String> = Vec::new();
        for ga in args.iter() {
            if let Some(t) = ga.as_type() {
                if !first {
                    s.push(',');
                }
                first = false;
                s.push_str(&esc(&self.ty_s(t)));
                for w in t.walk() {
                    if let Some(wt) = w.as_type() {
                        if let ty::Closure(d, _) | ty::Coroutine(d, _) = wt.kind() {
                            let p = self.id(*d);
                            if !closures.contains(&p) {
                                closures.push(p);
                            }
                        }
                    }
                }
            }
        }
        s.push(']');
        if !closures.is_empty() {
            s.push_str(",\"closures\":[");
            s.push_str(&closures.iter().map(|c| esc(c)).collect::<Vec<_>>().join(","));
            s.push(']');
        }
        // self type of the impl / trait
        if let Some(parent) = tcx.opt_parent(def) {
            match tcx.def_kind(parent) {
                DefKind::Trait => {
                    let _ = write!(s, ",\"trait\":{}", esc(&self.path(parent)));
                    if let Some(t0) = args.types().next() {
                        let _ = write!(s, ",\"self_ty\":{}", esc(&self.ty_s(t0)));
                    }
                }
                DefKind::Impl { .. } => {
                    let st = tcx.type_of(parent).instantiate(tcx, args).skip_norm_wip();
                    let _ = write!(s, ",\"self_ty\":{}", esc(&self.ty_s(st)));
                    if let Some(tr) = tcx.impl_opt_trait_ref(parent) {
                        let _ = write!(
                            s,
                            ",\"trait\":{}",
                            esc(&self.path(tr.skip_binder().def_id))
                        );
                    }
                }
                _ => {}
            }
        }
        // trait-method resolution
        if matches!(tcx.def_kind(def), DefKind::AssocFn | DefKind::Fn) {
            let is_trait_item = tcx
                .opt_parent(def)
                .map(|p| matches!(tcx.def_kind(p), DefKind::Trait))
                .unwrap_or(false);
            if is_trait_item {
                let env = TypingEnv::post_analysis(tcx, owner.to_def_id());
                let r = std::panic::catch_unwind(std::panic::AssertUnwindSafe(|| {
                    ty::Instance::try_resolve(tcx, env, def, args)
                }));
                if let Ok(Ok(Some(inst))) = r {
                    let rd = inst.def_id();
                    if rd != def {
                        let _ = write!(s, ",\"resolved\":{},\"resolved_id\":{}", esc(&self.path(rd)), esc(&self.id(rd)));
                        if let Some(ip) = tcx.opt_parent(rd) {
                            if matches!(tcx.def_kind(ip), DefKind::Impl { .. }) {
                                let st = tcx.type_of(ip).instantiate_identity().skip_norm_wip();
                                let _ = write!(s, ",\"resolved_impl_self\":{}", esc(&self.ty_s(st)));
                            }
                        }
                    }
                }
            }
        }
        s.push('}');
        s
    }

    fn constant(&self, owner: LocalDefId, c: &Const<'tcx>) -> String {
        let tcx = self.tcx;
        let ty = c.ty();
        let mut s = format!("{{\"ty\":{}", esc(&self.ty_s(ty)));
        match ty.kind() {
            ty::FnDef(d, args) => {
                let _ = write!(s, ",\"fn\":{}", self.fn_ref(owner, *d, args));
            }
            ty::Closure(d, _) => {
                let _ = write!(s, ",\"closure\":{}", esc(&self.id(*d)));
            }
            _ => {}
        }
        match c {
            Const::Val(cv, _) => match cv {
                ConstValue::Scalar(Scalar::Int(i)) => {
                    let sz = i.size().bytes();
                    if sz > 0 {
                        let bits = i.to_bits(i.size());
                        match ty.kind() {
                            ty::Float(ft) => {
                                let f = match ft {
                                    ty::FloatTy::F32 => f32::from_bits(bits as u32) as f64,
                                    ty::FloatTy::F64 => f64::from_bits(bits as u64),
                                    _ => f64::NAN,
                                };
                                if f.is_finite() {
                                    let _ = write!(s, ",\"float\":{:?}", f);
                                }
                            }
                            ty::Int(_) => {
                                let shift = 128 - i.size().bits();
                                let v = ((bits as i128) << shift) >> shift;
                                let _ = write!(s, ",\"int\":{}", v);
                            }
                            _ => {
                                let _ = write!(s, ",\"int\":{}", bits);
                            }
                        }
                    }
                }
                ConstValue::Scalar(Scalar::Ptr(ptr, _)) => {
                    let aid = ptr.provenance.alloc_id();
                    if let Some(ga) = tcx.try_get_global_alloc(aid) {
                        match ga {
                            GlobalAlloc::Static(d) => {
                                let _ = write!(s, ",\"static\":{}", esc(&self.id(d)));
                            }
                            GlobalAlloc::Function { instance } => {
                                let _ = write!(s, ",\"fnptr\":{}", esc(&self.path(instance.def_id())));
                            }
                            GlobalAlloc::Memory(al) => {
                                // small byte-array constants (format_args! templates)
                                let a = al.inner();
                                let n = a.len();
                                if n <= 512 && a.provenance().ptrs().is_empty() {
                                    let bytes = a.inspect_with_uninit_and_ptr_outside_interpreter(0..n);
                                    let v: Vec<String> = bytes.iter().map(|b| b.to_string()).collect();
                                    let _ = write!(s, ",\"bytes\":[{}]", v.join(","));
                                }
                            }
                            _ => {}
                        }
                    }
                }
                ConstValue::Slice { .. } => {
                    if let Some(bytes) = cv.try_get_slice_bytes_for_diagnostics(tcx) {
                        if let Ok(st) = std::str::from_utf8(bytes) {
                            let _ = write!(s, ",\"str\":{}", esc(st));
                        }
                    }
                }
                _ => {}
            },
            Const::Unevaluated(u, _) => {
                let _ = write!(s, ",\"uneval\":{}", esc(&self.id(u.def)));
                if u.promoted.is_some() {
                    s.push_str(",\"promoted\":true");
                }
            }
            Const::Ty(_, ct) => {
                let _ = write!(s, ",\"repr\":{}", esc(&format!("{:?}", ct)));
                if let Some(v) = ct.try_to_scalar() {
                    if let Scalar::Int(i) = v {
                        let bits = i.to_bits(i.size());
                        let _ = write!(s, ",\"int\":{}", bits);
                    }
                }
                if let Some(v) = ct.try_to_value() {
                    if matches!(ty.kind(), ty::Ref(_, inner, _) if inner.is_str()) {
                        if let Some(bytes) = v.try_to_raw_bytes(tcx) {
                            if let Ok(st) = std::str::from_utf8(bytes) {
                                let _ = write!(s, ",\"str\":{}", esc(st));
                            }
                        }
                    }
                }
            }
        }
        s.push('}');
        s
    }

    fn operand(&self, owner: LocalDefId, body: &Body<'tcx>, o: &Operand<'tcx>) -> String {
        match o {
            Operand::Copy(p) => format!("{{\"copy\":{}}}", self.place(body, p)),
            Operand::Move(p) => format!("{{\"move\":{}}}", self.place(body, p)),
            Operand::Constant(c) => format!("{{\"const\":{}}}", self.constant(owner, &c.const_)),
            #[allow(unreachable_patterns)]
            _ => "{\"other_operand\":true}".to_string(),
        }
    }

    fn rvalue(&self, owner: LocalDefId, body: &Body<'tcx>, rv: &Rvalue<'tcx>) -> String {
        match rv {
            Rvalue::Use(o, ..) => format!("{{\"use\":{}}}", self.operand(owner, body, o)),
            Rvalue::Ref(_, bk, p) => format!(
                "{{\"ref\":{},\"mut\":{}}}",
                self.place(body, p),
                matches!(bk, rustc_middle::mir::BorrowKind::Mut { .. })
            ),
            Rvalue::RawPtr(_, p) => format!("{{\"rawptr\":{}}}", self.place(body, p)),
            Rvalue::CopyForDeref(p) => format!("{{\"use\":{{\"copy\":{}}}}}", self.place(body, p)),
            Rvalue::BinaryOp(op, ab) => format!(
                "{{\"bin\":{},\"a\":{},\"b\":{}}}",
                esc(&format!("{:?}", op)),
                self.operand(owner, body, &ab.0),
                self.operand(owner, body, &ab.1)
            ),
            Rvalue::UnaryOp(op, a) => format!(
                "{{\"un\":{},\"a\":{}}}",
                esc(&format!("{:?}", op)),
                self.operand(owner, body, a)
            ),
            Rvalue::Discriminant(p) => format!("{{\"discr\":{}}}", self.place(body, p)),
            Rvalue::Cast(k, o, t) => format!(
                "{{\"cast\":{},\"to\":{},\"kind\":{}}}",
                self.operand(owner, body, o),
                esc(&self.ty_s(*t)),
                esc(&format!("{:?}", k).split('(').next().unwrap_or("").to_string())
            ),
            Rvalue::ThreadLocalRef(d) => format!("{{\"tlref\":{}}}", esc(&self.id(*d))),
            Rvalue::Repeat(o, _) => format!("{{\"repeat\":{}}}", self.operand(owner, body, o)),
            Rvalue::Aggregate(k, ops) => {
                let kind = match &**k {
                    AggregateKind::Tuple => "\"tuple\"".to_string(),
                    AggregateKind::Array(_) => "\"array\"".to_string(),
                    AggregateKind::Adt(d, vi, _, _, _) => {
                        let adt = self.tcx.adt_def(*d);
                        let vname = adt.variant(*vi).name.to_string();
                        format!(
                            "{{\"adt\":{},\"variant\":{},\"vi\":{}}}",
                            esc(&self.path(*d)),
                            esc(&vname),
                            vi.as_usize()
                        )
                    }
                    AggregateKind::Closure(d, _) => format!("{{\"closure\":{}}}", esc(&self.id(*d))),
                    AggregateKind::Coroutine(d, _) => {
                        format!("{{\"coroutine\":{}}}", esc(&self.id(*d)))
                    }
                    AggregateKind::CoroutineClosure(d, _) => {
                        format!("{{\"closure\":{}}}", esc(&self.id(*d)))
                    }
                    AggregateKind::RawPtr(..) => "\"rawptr\"".to_string(),
                };
                let os: Vec<String> = ops.iter().map(|o| self.operand(owner, body, o)).collect();
                format!("{{\"agg\":{},\"ops\":[{}]}}", kind, os.join(","))
            }
            other => format!("{{\"other\":{}}}", esc(&format!("{:?}", other).chars().take(80).collect::<String>())),
        }
    }

    fn bb(&self, b: BasicBlock) -> usize {
        b.as_usize()
    }

    fn unwind(&self, u: &UnwindAction) -> String {
        match u {
            UnwindAction::Cleanup(b) => format!("{}", self.bb(*b)),
            _ => "null".to_string(),
        }
    }

    fn body(&self, owner: LocalDefId, body: &Body<'tcx>) -> String {
        let tcx = self.tcx;
        let mut s = String::new();
        s.push_str("\"locals\":[");
        let mut names: Vec<Option<String>> = vec![None; body.local_decls.len()];
        for vdi in &body.var_debug_info {
            if let rustc_middle::mir::VarDebugInfoContents::Place(p) = &vdi.value {
                if p.projection.is_empty() {
                    names[p.local.as_usize()] = Some(vdi.name.to_string());
                }
            }
        }
        for (i, ld) in body.local_decls.iter().enumerate() {
            if i > 0 {
                s.push(',');
            }
            let adts = self.ty_adts(ld.ty);
            let _ = write!(
                s,
                "{{\"ty\":{},\"adts\":[{}]",
                esc(&self.ty_s(ld.ty)),
                adts.iter().map(|a| esc(a)).collect::<Vec<_>>().join(",")
            );
            if let Some(n) = &names[i] {
                let _ = write!(s, ",\"name\":{}", esc(n));
            }
            if ld.is_user_variable() {
                s.push_str(",\"user\":true");
            }
            s.push('}');
        }
        s.push_str("],\"upvars\":[");
        {
            // names of captured variables, in field order (closures/coroutines only)
            let dk = tcx.def_kind(owner);
            if matches!(dk, DefKind::Closure) {
                let caps = tcx.closure_captures(owner);
                let mut first = true;
                for c in caps.iter() {
                    if !first {
                        s.push(',');
                    }
                    first = false;
                    let _ = write!(s, "{}", esc(&c.to_string(tcx)));
                }
            }
        }
        s.push_str("],\"blocks\":[");
        for (bi, bd) in body.basic_blocks.iter().enumerate() {
            if bi > 0 {
                s.push(',');
            }
            let _ = write!(s, "{{\"cleanup\":{},\"stmts\":[", bd.is_cleanup);
            let mut first = true;
            for st in &bd.statements {
                let js = match &st.kind {
                    StatementKind::Assign(b) => {
                        let (p, rv) = &**b;
                        Some(format!(
                            "{{\"k\":\"assign\",\"dst\":{},\"rv\":{},\"span\":{}}}",
                            self.place(body, p),
                            self.rvalue(owner, body, rv),
                            esc(&self.span_s(st.source_info.span))
                        ))
                    }
                    StatementKind::StorageDead(l) => {
                        Some(format!("{{\"k\":\"dead\",\"l\":{}}}", l.as_usize()))
                    }
                    StatementKind::StorageLive(l) => {
                        Some(format!("{{\"k\":\"live\",\"l\":{}}}", l.as_usize()))
                    }
                    StatementKind::SetDiscriminant { place, variant_index } => Some(format!(
                        "{{\"k\":\"setdiscr\",\"dst\":{},\"vi\":{}}}",
                        self.place(body, place),
                        variant_index.as_usize()
                    )),
                    _ => None,
                };
                if let Some(js) = js {
                    if !first {
                        s.push(',');
                    }
                    first = false;
                    s.push_str(&js);
                }
            }
            s.push_str("],\"term\":");
            let term = bd.terminator();
            let sp = esc(&self.span_s(term.source_info.span));
            let exp = term.source_info.span.from_expansion();
            let t = match &term.kind {
                TerminatorKind::Goto { target } => format!("{{\"k\":\"goto\",\"target\":{}}}", self.bb(*target)),
                TerminatorKind::SwitchInt { discr, targets } => {
                    let mut ts: Vec<String> = Vec::new();
                    for (v, b) in targets.iter() {
                        ts.push(format!("[{},{}]", v, self.bb(b)));
                    }
                    format!(
                        "{{\"k\":\"switch\",\"discr\":{},\"targets\":[{}],\"otherwise\":{},\"span\":{},\"macros\":{}}}",
                        self.operand(owner, body, discr),
                        ts.join(","),
                        self.bb(targets.otherwise()),
                        sp,
                        if exp { self.macros_s(term.source_info.span) } else { "[]".to_string() }
                    )
                }
                TerminatorKind::UnwindResume => "{\"k\":\"resume\"}".to_string(),
                TerminatorKind::UnwindTerminate(_) => "{\"k\":\"abort\"}".to_string(),
                TerminatorKind::Return => "{\"k\":\"return\"}".to_string(),
                TerminatorKind::Unreachable => "{\"k\":\"unreachable\"}".to_string(),
                TerminatorKind::Drop { place, target, unwind, .. } => format!(
                    "{{\"k\":\"drop\",\"place\":{},\"target\":{},\"unwind\":{},\"span\":{}}}",
                    self.place(body, place),
                    self.bb(*target),
                    self.unwind(unwind),
                    sp
                ),
                TerminatorKind::Call { func, args, destination, target, unwind, .. } => {
                    let callee = match func {
                        Operand::Constant(c) => match c.const_.ty().kind() {
                            ty::FnDef(d, ga) => self.fn_ref(owner, *d, ga),
                            _ => format!("{{\"indirect\":{}}}", self.operand(owner, body, func)),
                        },
                        _ => format!(
                            "{{\"indirect\":{},\"fty\":{}}}",
                            self.operand(owner, body, func),
                            esc(&self.ty_s(func.ty(&body.local_decls, tcx)))
                        ),
                    };
                    let a: Vec<String> =
                        args.iter().map(|x| self.operand(owner, body, &x.node)).collect();
                    format!(
                        "{{\"k\":\"call\",\"callee\":{},\"args\":[{}],\"dst\":{},\"target\":{},\"unwind\":{},\"span\":{},\"exp\":{},\"macros\":{}}}",
                        callee,
                        a.join(","),
                        self.place(body, destination),
                        target.map(|t| self.bb(t).to_string()).unwrap_or("null".to_string()),
                        self.unwind(unwind),
                        sp,
                        exp,
                        if exp { self.macros_s(term.source_info.span) } else { "[]".to_string() }
                    )
                }
                TerminatorKind::TailCall { .. } => "{\"k\":\"tailcall\"}".to_string(),
                TerminatorKind::Assert { cond, expected, msg, target, unwind } => {
                    let m = format!("{:?}", msg);
                    let m = m.split('(').next().unwrap_or("").to_string();
                    format!(
                        "{{\"k\":\"assert\",\"cond\":{},\"expected\":{},\"msg\":{},\"target\":{},\"unwind\":{},\"span\":{}}}",
                        self.operand(owner, body, cond),
                        expected,
                        esc(&m),
                        self.bb(*target),
                        self.unwind(unwind),
                        sp
                    )
                }
                TerminatorKind::Yield { value, resume, resume_arg, drop } => format!(
                    "{{\"k\":\"yield\",\"value\":{},\"resume\":{},\"resume_arg\":{},\"drop\":{},\"span\":{}}}",
                    self.operand(owner, body, value),
                    self.bb(*resume),
                    self.place(body, resume_arg),
                    drop.map(|t| self.bb(t).to_string()).unwrap_or("null".to_string()),
                    sp
                ),
                TerminatorKind::CoroutineDrop => "{\"k\":\"codrop\"}".to_string(),
                TerminatorKind::FalseEdge { real_target, .. } => {
                    format!("{{\"k\":\"goto\",\"target\":{}}}", self.bb(*real_target))
                }
                TerminatorKind::FalseUnwind { real_target, .. } => {
                    format!("{{\"k\":\"goto\",\"target\":{}}}", self.bb(*real_target))
                }
                TerminatorKind::InlineAsm { .. } => "{\"k\":\"asm\"}".to_string(),
            };
            s.push_str(&t);
            s.push('}');
        }
        s.push(']');
        s
    }

    fn dump(&self) -> String {
        let tcx = self.tcx;
        let mut s = String::new();
        let cname = tcx.crate_name(rustc_hir::def_id::LOCAL_CRATE).to_string();
        let _ = write!(s, "{{\"crate\":{}", esc(&cname));
        let is_test = tcx.sess.opts.test;
        let _ = write!(s, ",\"test_harness\":{}", is_test);
        // cfgs
        let mut cfgs: Vec<String> = Vec::new();
        for (k, v) in tcx.sess.config.iter() {
            if k.as_str() == "feature" {
                if let Some(v) = v {
                    cfgs.push(format!("feature={}", v));
                }
            } else if k.as_str() == "test" {
                cfgs.push("test".to_string());
            }
        }
        cfgs.sort();
        let _ = write!(
            s,
            ",\"cfg\":[{}]",
            cfgs.iter().map(|c| esc(c)).collect::<Vec<_>>().join(",")
        );

        // ADTs, statics, consts
        s.push_str(",\"adts\":{");
        let mut first = true;
        let items = tcx.hir_crate_items(());
        for ld in items.definitions() {
            let dk = tcx.def_kind(ld);
            if matches!(dk, DefKind::Struct | DefKind::Enum) {
                let adt = tcx.adt_def(ld.to_def_id());
                if !first {
                    s.push(',');
                }
                first = false;
                let _ = write!(s, "{}:{{\"kind\":{},\"variants\":[", esc(&self.path(ld.to_def_id())), esc(if adt.is_enum() { "enum" } else { "struct" }));
                let mut fv = true;
                for v in adt.variants().iter() {
                    if !fv {
                        s.push(',');
                    }
                    fv = false;
                    let _ = write!(s, "{{\"name\":{},\"fields\":[", esc(&v.name.to_string()));
                    let mut ff = true;
                    for fd in v.fields.iter() {
                        if !ff {
                            s.push(',');
                        }
                        ff = false;
                        let fty = tcx.type_of(fd.did).instantiate_identity().skip_norm_wip();
                        let _ = write!(s, "{{\"name\":{},\"ty\":{}}}", esc(&fd.name.to_string()), esc(&self.ty_s(fty)));
                    }
                    s.push_str("]}");
                }
                s.push_str("]}");
            }
        }
        s.push_str("},\"statics\":{");
        let mut first = true;
        for ld in items.definitions() {
            let dk = tcx.def_kind(ld);
            let is_static = matches!(dk, DefKind::Static { .. });
            let is_const = matches!(dk, DefKind::Const { .. });
            if is_static || is_const {
                let did = ld.to_def_id();
                let t = tcx.type_of(did).instantiate_identity().skip_norm_wip();
                if is_const {
                    // only thread_local!-style keys are interesting among consts
                    let ts = self.ty_s(t);
                    if !ts.starts_with("std::thread::local::LocalKey<") {
                        continue;
                    }
                }
                if !first {
                    s.push(',');
                }
                first = false;
                let mut parent = tcx.opt_parent(did);
                // climb to the nearest enclosing fn-like item
                let mut pfn: Option<DefId> = None;
                while let Some(p) = parent {
                    if matches!(tcx.def_kind(p), DefKind::Fn | DefKind::AssocFn | DefKind::Closure) {
                        pfn = Some(p);
                        break;
                    }
                    parent = tcx.opt_parent(p);
                }
                let tl = is_static && tcx.is_thread_local_static(did);
                let _ = write!(
                    s,
                    "{}:{{\"path\":{},\"ty\":{},\"parent_fn\":{},\"thread_local\":{},\"kind\":{},\"span\":{}}}",
                    esc(&self.id(did)),
                    esc(&self.path(did)),
                    esc(&self.ty_s(t)),
                    pfn.map(|p| esc(&self.id(p))).unwrap_or("null".to_string()),
                    tl,
                    esc(if is_static { "static" } else { "const" }),
                    esc(&self.span_s(tcx.def_span(did)))
                );
            }
        }
        s.push_str("},\"impls\":[");
        let mut first = true;
        for (tr, impls) in tcx.all_local_trait_impls(()).iter() {
            for im in impls {
                if !first {
                    s.push(',');
                }
                first = false;
                let st = tcx.type_of(im.to_def_id()).instantiate_identity().skip_norm_wip();
                let _ = write!(
                    s,
                    "{{\"trait\":{},\"self_ty\":{},\"span\":{}}}",
                    esc(&self.path(*tr)),
                    esc(&self.ty_s(st)),
                    esc(&self.span_s(tcx.def_span(im.to_def_id())))
                );
            }
        }
        s.push_str("],\"bodies\":{");
        let mut first = true;
        let mut stolen: Vec<String> = Vec::new();
        for owner in tcx.hir_body_owners() {
            let dk = tcx.def_kind(owner);
            let kind = match dk {
                DefKind::Fn => "fn",
                DefKind::AssocFn => "assoc_fn",
                DefKind::Closure => {
                    if tcx.is_coroutine(owner.to_def_id()) {
                        "coroutine"
                    } else {
                        "closure"
                    }
                }
                DefKind::Static { .. } => "static",
                DefKind::Const { .. } | DefKind::AssocConst { .. } => "const",
                _ => continue,
            };
            let did = owner.to_def_id();
            // skip bodies with type errors
            if tcx.typeck(owner).tainted_by_errors.is_some() {
                continue;
            }
            let steal = tcx.mir_built(owner);
            if steal.is_stolen() {
                // a const/static whose MIR was already consumed by const evaluation while an earlier
                // body was being printed; recorded so that the analysis can fail closed if it matters
                stolen.push(format!("{}:{}", kind, self.id(did)));
                continue;
            }
            let body = steal.borrow();
            if !first {
                s.push(',');
            }
            first = false;
            let _ = write!(s, "{}:{{\"path\":{},\"kind\":{}", esc(&self.id(did)), esc(&self.path(did)), esc(kind));
            if let Some(p) = tcx.opt_parent(did) {
                let _ = write!(s, ",\"parent\":{}", esc(&self.id(p)));
                if matches!(tcx.def_kind(p), DefKind::Impl { .. }) {
                    let st = tcx.type_of(p).instantiate_identity().skip_norm_wip();
                    let _ = write!(s, ",\"impl_self\":{}", esc(&self.ty_s(st)));
                    if let Some(tr) = tcx.impl_opt_trait_ref(p) {
                        let _ = write!(s, ",\"impl_trait\":{}", esc(&self.path(tr.skip_binder().def_id)));
                    }
                }
            }
            // in a #[cfg(test)] module or #[test] fn? (path-based: any ancestor module named `tests`
            // is not reliable, so record the attribute instead)
            let mut in_test = false;
            {
                let mut cur = Some(did);
                while let Some(c) = cur {
                    if let Some(l) = c.as_local() {
                        let hid = tcx.local_def_id_to_hir_id(l);
                        for a in tcx.hir_attrs(hid) {
                            let t = format!("{:?}", a);
                            if t.contains("CfgTrace") && t.contains("test") {
                                in_test = true;
                            }
                        }
                    }
                    cur = tcx.opt_parent(c);
                }
            }
            let _ = write!(s, ",\"in_test\":{}", in_test);
            let _ = write!(s, ",\"span\":{}", esc(&self.span_s(tcx.def_span(did))));
            let _ = write!(s, ",\"exp\":{}", tcx.def_span(did).from_expansion());
            let _ = write!(s, ",\"arg_count\":{}", body.arg_count);
            if matches!(dk, DefKind::Fn | DefKind::AssocFn) {
                let sig = tcx.fn_sig(did).instantiate_identity().skip_norm_wip().skip_binder();
                let _ = write!(s, ",\"ret_ty\":{}", esc(&self.ty_s(sig.output())));
                let ins: Vec<String> = sig.inputs().iter().map(|t| esc(&self.ty_s(*t))).collect();
                let _ = write!(s, ",\"inputs\":[{}]", ins.join(","));
                let _ = write!(s, ",\"is_async\":{}", tcx.asyncness(did).is_async());
            }
            s.push(',');
            s.push_str(&self.body(owner, &body));
            s.push('}');
        }
        s.push_str("},\"stolen\":[");
        s.push_str(&stolen.iter().map(|x| esc(x)).collect::<Vec<_>>().join(","));
        s.push_str("]}");
        s
    }
}

struct Dump {
    out_dir: String,
    tag: String,
}

impl Callbacks for Dump {
    fn after_expansion<'tcx>(
        &mut self,
        _compiler: &rustc_interface::interface::Compiler,
        tcx: TyCtxt<'tcx>,
    ) -> Compilation {
        let cx = Cx { tcx };
        let js = cx.dump();
        let cname = tcx.crate_name(rustc_hir::def_id::LOCAL_CRATE).to_string();
        let path = format!("{}/{}-{}.json", self.out_dir, cname, self.tag);
        let tmp = format!("{}.tmp{}", path, std::process::id());
        std::fs::write(&tmp, js).expect("mirfacts: cannot write fact file");
        std::fs::rename(&tmp, &path).expect("mirfacts: cannot rename fact file");
        Compilation::Continue
    }
}

struct Nothing;
impl Callbacks for Nothing {}

fn main() {
    let mut args: Vec<String> = std::env::args().collect();
    // RUSTC_WORKSPACE_WRAPPER passes the real rustc as argv[1]
    if args.len() > 1 {
        let stem = std::path::Path::new(&args[1])
            .file_stem()
            .map(|s| s.to_string_lossy().to_string())
            .unwrap_or_default();
        if stem == "rustc" {
            args.remove(1);
        }
    }
    let out = std::env::var("MIRFACTS_OUT").ok();
    let mut crate_name: Option<String> = None;
    let mut proc_macro = false;
    let mut is_test = false;
    let mut it = args.iter().peekable();
    while let Some(a) = it.next() {
        if a == "--crate-name" {
            crate_name = it.peek().map(|s| s.to_string());
        }
        if a == "--crate-type" {
            if let Some(t) = it.peek() {
                if t.as_str() == "proc-macro" {
                    proc_macro = true;
                }
            }
        }
        if a == "--test" {
            is_test = true;
        }
    }
    let only = std::env::var("MIRFACTS_ONLY").ok(); // comma-separated crate names
    let mut wanted = out.is_some()
        && !proc_macro
        && crate_name.as_deref().map(|c| !c.starts_with("build_script")).unwrap_or(false);
    if let (Some(only), Some(c)) = (&only, &crate_name) {
        if !only.split(',').any(|x| x == c) {
            wanted = false;
        }
    }
    if is_test && std::env::var("MIRFACTS_TESTS").is_err() {
        wanted = false;
    }
    let code = rustc_driver::catch_with_exit_code(|| {
        if wanted {
            // distinguish several targets of one crate (lib/test/bin) by a hash of the arguments
            let mut h: u64 = 1469598103934665603;
            for a in &args {
                if a.starts_with("--out-dir") || a.starts_with("-Cmetadata") || a.starts_with("metadata=") {
                    continue;
                }
                for b in a.bytes() {
                    h ^= b as u64;
                    h = h.wrapping_mul(1099511628211);
                }
            }
            let tag = format!("{}{:08x}", if is_test { "test-" } else { "" }, h as u32);
            let mut cb = Dump { out_dir: out.clone().unwrap(), tag };
            rustc_driver::run_compiler(&args, &mut cb)
        } else {
            let mut cb = Nothing;
            rustc_driver::run_compiler(&args, &mut cb)
        }
    });
    std::process::exit(match code {
        c if c == std::process::ExitCode::SUCCESS => 0,
        _ => 1,
    });
}
