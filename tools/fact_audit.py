#!/usr/bin/env python3
"""Fact-level mutation audit of the rule set (a build-time tool, not a registered check).

Every interesting construct in the MIR facts of cachelito-core is altered in memory, one at a time
(comparison strictness / direction, Eq<->Ne, two-way switch targets swapped, an effectful call dropped,
a call redirected to its sibling, an integer constant bumped), all rules of all properties are run on the
altered program, and the alterations that no rule reports ("survivors") are listed for triage: each is
either behaviour-preserving (say why) or a gap (write the rule).  Nothing touches /repo or the disk.

  tools/fact_audit.py [--jobs N] [--only <substring of body name>] [--props C04,C05,...] [--out file]
  -> notes/fact_audit.jsonl (one line per alteration) and a summary on stdout"""
import copy
import json
import os
import sys
import time
from multiprocessing import Pool

HERE = os.path.dirname(os.path.dirname(os.path.abspath(__file__)))
sys.path.insert(0, HERE)
from cfa.context import Ctx  # noqa: E402
from cfa import planted as P  # noqa: E402
from cfa import props as PROPS  # noqa: E402
from cfa.facts import callee_name  # noqa: E402
from cfa import names as N  # noqa: E402

CMP = {'Gt': 'Ge', 'Ge': 'Gt', 'Lt': 'Le', 'Le': 'Lt'}
REV = {'Gt': 'Lt', 'Lt': 'Gt', 'Ge': 'Le', 'Le': 'Ge'}
EQ = {'Eq': 'Ne', 'Ne': 'Eq'}
SIBLINGS = {
    'pop_front': 'pop_back', 'pop_back': 'pop_front', 'push_back': 'push_front', 'push_front': 'push_back',
    'record_hit': 'record_miss', 'record_miss': 'record_hit', 'read': 'write', 'fetch_add': 'fetch_sub',
    'saturating_add': 'saturating_sub', 'saturating_sub': 'saturating_add', 'min': 'max', 'max': 'min',
    'contains_key': 'is_empty', 'is_some': 'is_none', 'is_none': 'is_some',
    'insert_with_memory': 'insert', 'insert_result': 'insert', 'insert_result_with_memory': 'insert_with_memory',
    'register_callback': 'register_invalidation_callback', 'register_invalidation_callback': 'register_callback',
}
EFFECTFUL = ('insert_result', 'insert_with_memory', 'insert_result_with_memory', 'register', 'register_callback', 'register_invalidation_callback', 'call_once', 'insert', 'remove', 'clear', 'retain', 'push_back', 'push_front', 'pop_front', 'pop_back', 'record_hit', 'record_miss', 'increment_frequency',
             'fetch_add', 'store', 'swap_remove_back', 'truncate', 'extend')
MODULES = ('global_cache', 'thread_local_cache', 'async_global_cache', 'utils', 'cache_entry', 'invalidation', 'stats', 'stats_registry', 'keys',
           'memory_estimator', 'eviction_policy')
ALL = ['C%02d' % i for i in range(1, 21)]

CTX = None
PROP_LIST = ALL
LIVE = {}
KNOWN = {e.get('key') for e in json.load(open(os.path.join(HERE, 'known_findings.json')))['findings'] if e.get('status') == 'known'}


def in_scope(body):
    nm = body.name
    if nm.startswith('<') and (' as core::' in nm or ' as std::' in nm or ' as alloc::' in nm):
        return False  # derives
    return any(('cachelito_core::%s::' % m) in nm for m in MODULES)


def _consts_in(rv, path=()):
    """[(path, const dict)] of the constant operands inside an rvalue JSON"""
    out = []
    if isinstance(rv, dict):
        if 'const' in rv and isinstance(rv['const'], dict):
            out.append((path, rv['const']))
        else:
            for k, v in rv.items():
                out += _consts_in(v, path + (k,))
    elif isinstance(rv, list):
        for i, v in enumerate(rv):
            out += _consts_in(v, path + (i,))
    return out


def generated_bodies(ctx):
    """bodies of a few feature-rich fixture functions (per flavour the one with most attributes, and one plain Result function)
    with everything the macro generated inside them, user bodies excepted"""
    exp = ctx.expect

    def score(v):
        return sum(1 for k in ('limit', 'ttl', 'max_memory', 'cache_if', 'invalidate_on') if v.get(k) is not None) + sum(1 for k in ('tags', 'events', 'dependencies') if v.get(k))
    picks = {}
    for name, v in sorted(exp.items()):
        k1 = (v['scope'], 'rich')
        if k1 not in picks or score(v) > score(exp[picks[k1]]):
            picks[k1] = name
        if v['ret'].startswith('Result<') and score(v) == 0 and (v['scope'], 'result') not in picks:
            picks[(v['scope'], 'result')] = name
    out = []
    for name in sorted(set(picks.values())):
        unit = name.split('::')[0]
        cr = ctx.crate(unit)
        for b in cr.named(name):
            # only what is live once the scope test is folded: the macro emits both branches, one is dead per function
            from cfa.spec import Spec
            todo = [b]
            seen = set()
            while todo:
                x = todo.pop()
                if x.id in seen:
                    continue
                seen.add(x.id)
                live = Spec(ctx.prog, x, {}).reachable_blocks()
                LIVE[x.id] = live
                if ctx.role(x):
                    out.append((unit, x))
                for c in cr.children(x):
                    # the closure / coroutine is live if a live block of its parent mentions it (aggregate or call operand)
                    txt = json.dumps([x.blocks[i] for i in sorted(live) if i < len(x.blocks)])
                    if json.dumps(c.id) in txt:
                        todo.append(c)
    return out


def enumerate_sites(ctx, only=None, generated=False):
    out = []
    pool = generated_bodies(ctx) if generated else [('cachelito_core', b) for b in sorted(ctx.core.bodies.values(), key=lambda b: b.id)]
    for unit, body in pool:
        if (not generated and not in_scope(body)) or (only and only not in body.name):
            continue
        for bi, bl in enumerate(body.blocks):
            if bl['cleanup'] or (body.id in LIVE and bi not in LIVE[body.id]):
                continue
            for si, st in enumerate(bl['stmts']):
                if st['k'] == 'assign' and 'bin' in st['rv']:
                    op = st['rv']['bin']
                    if op in CMP:
                        out.append((body.id, 'cmp-strict', bi, si, op, CMP[op], unit))
                        out.append((body.id, 'cmp-reverse', bi, si, op, REV[op], unit))
                    elif op in EQ:
                        out.append((body.id, 'eq-negate', bi, si, op, EQ[op], unit))
                if st['k'] == 'assign':
                    for path, c in _consts_in(st['rv']):
                        if isinstance(c.get('int'), int) and not isinstance(c.get('int'), bool) and 0 <= c['int'] <= 4096 and 'bool' not in (c.get('ty') or ''):
                            out.append((body.id, 'stmt-const-bump', bi, (si, path), c['int'], c['int'] + 1, unit))
                        elif isinstance(c.get('str'), str):
                            out.append((body.id, 'stmt-str-bump', bi, (si, path), c['str'], c['str'] + '~', unit))
            t = bl['term']
            if t['k'] == 'switch' and len(t['targets']) == 1 and t.get('otherwise') is not None:
                # only tests of a bool: swapping the arms of `if let Some(x)` / `match` would use a payload that is not there
                # (no source program corresponds to it)
                dp = t['discr'].get('move') or t['discr'].get('copy')
                is_discr = False
                if dp is not None and not dp.get('proj'):
                    for d in body.defs.get(dp['l'], []):
                        if d[0] == 'stmt' and 'discr' in d[3]:
                            is_discr = True
                if not is_discr:
                    out.append((body.id, 'switch-swap', bi, None, None, None, unit))
            if t['k'] == 'call':
                short = callee_name(t).rsplit('::', 1)[-1]
                if short in SIBLINGS:
                    out.append((body.id, 'call-sibling', bi, None, short, SIBLINGS[short], unit))
                full = callee_name(t)
                if generated and t.get('target') is not None and short not in EFFECTFUL and (full.startswith('cachelito_core::') or full.startswith('fx_')) \
                        and short not in ('new', 'to_cache_key', 'global'):
                    out.append((body.id, 'call-drop', bi, None, short, None, unit))
                if short in EFFECTFUL and t.get('target') is not None:
                    out.append((body.id, 'call-drop', bi, None, short, None, unit))
                for ai, a in enumerate(t['args']):
                    if 'const' in a and isinstance(a['const'].get('str'), str):
                        out.append((body.id, 'arg-str-bump', bi, ai, a['const']['str'], a['const']['str'] + '~', unit))
                    if 'const' in a and isinstance(a['const'].get('int'), int) and a['const']['int'] in (0, 1):
                        out.append((body.id, 'const-bump', bi, ai, a['const']['int'], a['const']['int'] + 1, unit))
    return out


def apply_site(ctx, site):
    bid, kind, bi, x, old, new, unit = site

    def edit(js):
        bl = js['blocks'][bi]
        if kind in ('cmp-strict', 'cmp-reverse', 'eq-negate'):
            bl['stmts'][x]['rv']['bin'] = new
        elif kind == 'switch-swap':
            t = bl['term']
            v, tb = t['targets'][0]
            t['targets'][0] = [v, t['otherwise']]
            t['otherwise'] = tb
        elif kind == 'call-sibling':
            c = bl['term']['callee']
            for k in ('path', 'id'):
                if c.get(k):
                    c[k] = c[k].rsplit('::', 1)[0] + '::' + new
            for k in ('resolved', 'resolved_id'):
                if k in c:
                    c[k] = None
        elif kind == 'call-drop':
            t = bl['term']
            bl['term'] = {'k': 'goto', 'target': t['target'], 'span': t.get('span')}
        elif kind == 'const-bump':
            bl['term']['args'][x]['const']['int'] = new
        elif kind == 'arg-str-bump':
            bl['term']['args'][x]['const']['str'] = new
        elif kind in ('stmt-const-bump', 'stmt-str-bump'):
            si, path = x
            o = bl['stmts'][si]['rv']
            for k in path:
                o = o[k]
            o['const']['int' if kind == 'stmt-const-bump' else 'str'] = new
    if unit == 'cachelito_core':
        return P._ctx_with_core(ctx, P._clone_core(ctx, bid, edit))
    return P._ctx_with_crate(ctx, unit, P._clone_crate(ctx, unit, bid, edit))


def run_one(site):
    t0 = time.time()
    try:
        os.utime(CTX.base, None)  # keep a concurrent extraction (another tree) from pruning the fact set this audit reads lazily
    except OSError:
        pass
    try:
        c2 = apply_site(CTX, site)
    except Exception as e:
        return site, {'error': 'apply: %r' % e}, 0
    fired = {}
    crashed = {}
    for pid in PROP_LIST:
        try:
            run = getattr(PROPS, 'prop_' + pid)(c2, 'quick')
            ks = [v['key'] for v in run.violations if v['key'] not in KNOWN]
            if ks:
                fired[pid] = ks[:3]
        except Exception as e:
            crashed[pid] = repr(e)[:120]
    return site, {'fired': fired, 'crashed': crashed}, round(time.time() - t0, 1)


def main():
    global CTX, PROP_LIST
    jobs = 8
    only = None
    for i, a in enumerate(sys.argv):
        if a == '--jobs':
            jobs = int(sys.argv[i + 1])
        if a == '--only':
            only = sys.argv[i + 1]
        if a == '--props':
            PROP_LIST = sys.argv[i + 1].split(',')
    CTX = Ctx('quick')
    # warm the shared parts before forking
    CTX.prog
    CTX.fx_sync
    CTX.fx_async
    generated = '--generated' in sys.argv
    sites = enumerate_sites(CTX, only, generated)
    print('%d alterations over %d bodies' % (len(sites), len({s[0] for s in sites})), flush=True)
    outp = os.path.join(HERE, 'notes', 'fact_audit.jsonl')
    for i, a in enumerate(sys.argv):
        if a == '--out':
            outp = sys.argv[i + 1]
    surv = 0
    with Pool(jobs) as pool, open(outp, 'w') as f:
        for site, res, secs in pool.imap_unordered(run_one, sites, chunksize=1):
            body = CTX.crate(site[6]).bodies[site[0]]
            span = None
            bl = body.blocks[site[2]]
            if site[1] in ('cmp-strict', 'cmp-reverse', 'eq-negate'):
                span = bl['stmts'][site[3]].get('span')
            elif site[1] in ('stmt-const-bump', 'stmt-str-bump'):
                span = bl['stmts'][site[3][0]].get('span')
            else:
                span = bl['term'].get('span')
            row = {'body': body.name, 'kind': site[1], 'block': site[2], 'old': site[4], 'new': site[5], 'span': span, 'secs': secs}
            row.update(res)
            row['reported'] = bool(res.get('fired')) or bool(res.get('crashed'))
            f.write(json.dumps(row) + '\n')
            f.flush()
            if not row['reported']:
                surv += 1
                print('SURVIVOR %s %s %s->%s  %s  (%s)' % (site[1], body.name, site[4], site[5], span, secs), flush=True)
    print('%d alterations, %d survivors' % (len(sites), surv))


if __name__ == '__main__':
    main()
