#!/usr/bin/env python3
"""Fact-level mutation audit of the rule set (a build-time tool, not a registered check).

Every interesting construct in the MIR facts of cachelito-core is altered in memory, one at a time
(comparison strictness / direction, Eq<->Ne, two-way switch targets swapped, an effectful call dropped,
a call redirected to its sibling, an integer constant bumped), all rules of all properties are run on the
altered program, and the alterations that no rule reports ("survivors") are listed for triage: each is
either behaviour-preserving (say why) or a gap (write the rule).  Nothing touches /repo or the disk.

  tools/fact_audit.py [--jobs N] [--only <substring of body name>] [--props C04,C05,...] [--out file]
  -> notes/fact_audit.jsonl (one line per alteration) and a summary on stdout"""
import copy
import json
import os
import sys
import time
from multiprocessing import Pool

HERE = os.path.dirname(os.path.dirname(os.path.abspath(__file__)))
sys.path.insert(0, HERE)
from cfa.context import Ctx  # noqa: E402
from cfa import planted as P  # noqa: E402
from cfa import props as PROPS  # noqa: E402
from cfa.facts import callee_name  # noqa: E402
from cfa import names as N  # noqa: E402

CMP = {'Gt': 'Ge', 'Ge': 'Gt', 'Lt': 'Le', 'Le': 'Lt'}
REV = {'Gt': 'Lt', 'Lt': 'Gt', 'Ge': 'Le', 'Le': 'Ge'}
EQ = {'Eq': 'Ne', 'Ne': 'Eq'}
SIBLINGS = {
    'pop_front': 'pop_back', 'pop_back': 'pop_front', 'push_back': 'push_front', 'push_front': 'push_back',
    'record_hit': 'record_miss', 'record_miss': 'record_hit', 'read': 'write', 'fetch_add': 'fetch_sub',
    'saturating_add': 'saturating_sub', 'saturating_sub': 'saturating_add', 'min': 'max', 'max': 'min',
    'contains_key': 'is_empty', 'is_some': 'is_none', 'is_none': 'is_some',
}
EFFECTFUL = ('insert', 'remove', 'clear', 'retain', 'push_back', 'push_front', 'pop_front', 'pop_back', 'record_hit', 'record_miss', 'increment_frequency',
             'fetch_add', 'store', 'swap_remove_back', 'truncate', 'extend')
MODULES = ('global_cache', 'thread_local_cache', 'async_global_cache', 'utils', 'cache_entry', 'invalidation', 'stats', 'stats_registry', 'keys',
           'memory_estimator', 'eviction_policy')
ALL = ['C%02d' % i for i in range(1, 21)]

CTX = None
PROP_LIST = ALL
KNOWN = {e.get('key') for e in json.load(open(os.path.join(HERE, 'known_findings.json')))['findings'] if e.get('status') == 'known'}


def in_scope(body):
    nm = body.name
    if nm.startswith('<') and (' as core::' in nm or ' as std::' in nm or ' as alloc::' in nm):
        return False  # derives
    return any(('cachelito_core::%s::' % m) in nm for m in MODULES)


def enumerate_sites(ctx, only=None):
    out = []
    for body in sorted(ctx.core.bodies.values(), key=lambda b: b.id):
        if not in_scope(body) or (only and only not in body.name):
            continue
        for bi, bl in enumerate(body.blocks):
            if bl['cleanup']:
                continue
            for si, st in enumerate(bl['stmts']):
                if st['k'] == 'assign' and 'bin' in st['rv']:
                    op = st['rv']['bin']
                    if op in CMP:
                        out.append((body.id, 'cmp-strict', bi, si, op, CMP[op]))
                        out.append((body.id, 'cmp-reverse', bi, si, op, REV[op]))
                    elif op in EQ:
                        out.append((body.id, 'eq-negate', bi, si, op, EQ[op]))
            t = bl['term']
            if t['k'] == 'switch' and len(t['targets']) == 1 and t.get('otherwise') is not None:
                # only tests of a bool: swapping the arms of `if let Some(x)` / `match` would use a payload that is not there
                # (no source program corresponds to it)
                dp = t['discr'].get('move') or t['discr'].get('copy')
                is_discr = False
                if dp is not None and not dp.get('proj'):
                    for d in body.defs.get(dp['l'], []):
                        if d[0] == 'stmt' and 'discr' in d[3]:
                            is_discr = True
                if not is_discr:
                    out.append((body.id, 'switch-swap', bi, None, None, None))
            if t['k'] == 'call':
                short = callee_name(t).rsplit('::', 1)[-1]
                if short in SIBLINGS:
                    out.append((body.id, 'call-sibling', bi, None, short, SIBLINGS[short]))
                if short in EFFECTFUL and t.get('target') is not None:
                    out.append((body.id, 'call-drop', bi, None, short, None))
                for ai, a in enumerate(t['args']):
                    if 'const' in a and isinstance(a['const'].get('int'), int) and a['const']['int'] in (0, 1):
                        out.append((body.id, 'const-bump', bi, ai, a['const']['int'], a['const']['int'] + 1))
    return out


def apply_site(ctx, site):
    bid, kind, bi, x, old, new = site

    def edit(js):
        bl = js['blocks'][bi]
        if kind in ('cmp-strict', 'cmp-reverse', 'eq-negate'):
            bl['stmts'][x]['rv']['bin'] = new
        elif kind == 'switch-swap':
            t = bl['term']
            v, tb = t['targets'][0]
            t['targets'][0] = [v, t['otherwise']]
            t['otherwise'] = tb
        elif kind == 'call-sibling':
            c = bl['term']['callee']
            for k in ('path', 'id'):
                if c.get(k):
                    c[k] = c[k].rsplit('::', 1)[0] + '::' + new
            for k in ('resolved', 'resolved_id'):
                if k in c:
                    c[k] = None
        elif kind == 'call-drop':
            t = bl['term']
            bl['term'] = {'k': 'goto', 'target': t['target'], 'span': t.get('span')}
        elif kind == 'const-bump':
            bl['term']['args'][x]['const']['int'] = new
    return P._ctx_with_core(ctx, P._clone_core(ctx, bid, edit))


def run_one(site):
    t0 = time.time()
    try:
        c2 = apply_site(CTX, site)
    except Exception as e:
        return site, {'error': 'apply: %r' % e}, 0
    fired = {}
    crashed = {}
    for pid in PROP_LIST:
        try:
            run = getattr(PROPS, 'prop_' + pid)(c2, 'quick')
            ks = [v['key'] for v in run.violations if v['key'] not in KNOWN]
            if ks:
                fired[pid] = ks[:3]
        except Exception as e:
            crashed[pid] = repr(e)[:120]
    return site, {'fired': fired, 'crashed': crashed}, round(time.time() - t0, 1)


def main():
    global CTX, PROP_LIST
    jobs = 8
    only = None
    for i, a in enumerate(sys.argv):
        if a == '--jobs':
            jobs = int(sys.argv[i + 1])
        if a == '--only':
            only = sys.argv[i + 1]
        if a == '--props':
            PROP_LIST = sys.argv[i + 1].split(',')
    CTX = Ctx('quick')
    # warm the shared parts before forking
    CTX.prog
    CTX.fx_sync
    CTX.fx_async
    sites = enumerate_sites(CTX, only)
    print('%d alterations over %d bodies' % (len(sites), len({s[0] for s in sites})), flush=True)
    outp = os.path.join(HERE, 'notes', 'fact_audit.jsonl')
    for i, a in enumerate(sys.argv):
        if a == '--out':
            outp = sys.argv[i + 1]
    surv = 0
    with Pool(jobs) as pool, open(outp, 'w') as f:
        for site, res, secs in pool.imap_unordered(run_one, sites, chunksize=1):
            body = CTX.core.bodies[site[0]]
            span = None
            bl = body.blocks[site[2]]
            if site[1] in ('cmp-strict', 'cmp-reverse', 'eq-negate'):
                span = bl['stmts'][site[3]].get('span')
            else:
                span = bl['term'].get('span')
            row = {'body': body.name, 'kind': site[1], 'block': site[2], 'old': site[4], 'new': site[5], 'span': span, 'secs': secs}
            row.update(res)
            row['reported'] = bool(res.get('fired')) or bool(res.get('crashed'))
            f.write(json.dumps(row) + '\n')
            f.flush()
            if not row['reported']:
                surv += 1
                print('SURVIVOR %s %s %s->%s  %s  (%s)' % (site[1], body.name, site[4], site[5], span, secs), flush=True)
    print('%d alterations, %d survivors' % (len(sites), surv))


if __name__ == '__main__':
    main()
