#!/usr/bin/env python3
"""Confirm a sub-agent's seeded change in a scratch worktree and run the checks against it.

  tools/confirm_seed.py <out_dir e.g. /tmp/seed_out/C04> <a|b> [worker-id]

Steps (all outside /repo and /verif): worktree of /repo HEAD -> apply patch -> full existing suite
(must pass) -> add the demo -> demo must fail -> revert the patch -> demo must pass -> re-apply ->
run all 20 quick checks with VERIF_REPO=<worktree>.  Writes /verif/seeded/<ID>_<x>/ (patch.diff,
demo file, meta.json) only if everything was confirmed.  The worktree and its build output are removed."""
import json
import os
import re
import shutil
import subprocess
import sys
import time

HERE = os.path.dirname(os.path.dirname(os.path.abspath(__file__)))


def sh(cmd, cwd=None, env=None, timeout=3600):
    r = subprocess.run(cmd, shell=True, cwd=cwd, env=env, text=True, capture_output=True, timeout=timeout)
    return r.returncode, r.stdout + r.stderr


def main():
    out_dir, x = sys.argv[1], sys.argv[2]
    wid = sys.argv[3] if len(sys.argv) > 3 else '0'
    tag = sys.argv[4] if len(sys.argv) > 4 else ''
    pid = os.path.basename(out_dir.rstrip('/'))
    meta = json.load(open(os.path.join(out_dir, '%s.meta.json' % x)))
    patch = os.path.join(out_dir, '%s.patch.diff' % x)
    demo = os.path.join(out_dir, '%s.demo.rs' % x)
    wt = '/tmp/confirm_wt_%s' % wid
    env = dict(os.environ)
    env['CARGO_TARGET_DIR'] = '/tmp/confirm_target_%s' % wid
    env['CARGO_NET_OFFLINE'] = 'true'
    sh('git -C /repo worktree remove --force %s' % wt)
    shutil.rmtree(wt, ignore_errors=True)
    rc, o = sh('git -C /repo worktree add --detach %s HEAD' % wt)
    res = {'property': pid, 'variant': tag + x, 'agent_meta': meta, 'confirmed': False, 'steps': {}}
    try:
        rc, o = sh('git apply %s' % patch, cwd=wt)
        res['steps']['apply'] = rc
        if rc != 0:
            res['steps']['apply_out'] = o[-800:]
            return res
        t0 = time.time()
        rc, o = sh('cargo test --workspace --no-fail-fast --offline 2>&1', cwd=wt, env=env)
        passed = sum(int(m) for m in re.findall(r'test result: \w+\. (\d+) passed', o))
        failed = sum(int(m) for m in re.findall(r'test result: \w+\. \d+ passed; (\d+) failed', o))
        res['steps']['suite_with_change'] = {'passed': passed, 'failed': failed, 'secs': round(time.time() - t0), 'errors': len(re.findall(r'^error', o, re.M))}
        suite_ok = failed == 0 and passed >= 401 and rc == 0 and 'error: could not compile' not in o  # 401 = the suite on the repaired tree; a hung or killed binary lowers the count
        where = meta.get('where_to_put_demo')
        dst = os.path.join(wt, where)
        os.makedirs(os.path.dirname(dst), exist_ok=True)
        shutil.copy(demo, dst)
        cmd = meta.get('run_demo_cmd')
        cmd = re.sub(r'^cd \S+ && ', '', cmd)
        cmd = re.sub(r'CARGO_TARGET_DIR=\S+ ', '', cmd)
        if '--offline' not in cmd:
            cmd = cmd.replace('cargo test', 'cargo test --offline')
        rc1, o1 = sh("bash -c '%s 2>&1 | tail -60; exit ${PIPESTATUS[0]}'" % cmd.replace("'", "'\\''"), cwd=wt, env=env)
        res['steps']['demo_with_change'] = {'exit': rc1, 'tail': o1[-600:]}
        sh('git apply -R %s' % patch, cwd=wt)
        rc2, o2 = sh("bash -c '%s 2>&1 | tail -60; exit ${PIPESTATUS[0]}'" % cmd.replace("'", "'\\''"), cwd=wt, env=env)
        res['steps']['demo_without_change'] = {'exit': rc2, 'tail': o2[-300:]}
        sh('git apply %s' % patch, cwd=wt)
        os.remove(dst)
        res['confirmed'] = bool(suite_ok and rc1 != 0 and rc2 == 0)
        # run the checks against the patched scratch tree
        cenv = dict(os.environ)
        cenv['VERIF_REPO'] = wt
        fired = {}
        for i in range(1, 21):
            p = 'C%02d' % i
            r = subprocess.run([os.path.join(HERE, 'check'), p, '--tier', 'quick'], env=cenv, text=True, capture_output=True, cwd=HERE)
            keys = re.findall(r'key=(\S+)', r.stdout)
            if keys:
                fired[p] = keys
        res['checks_fired'] = fired
        res['caught_by_own_property'] = pid in fired
        res['caught'] = bool(fired)
        if res['confirmed']:
            sd = os.path.join(HERE, 'seeded', '%s_%s%s' % (pid, tag, x))
            os.makedirs(sd, exist_ok=True)
            shutil.copy(patch, os.path.join(sd, 'patch.diff'))
            shutil.copy(demo, os.path.join(sd, 'demo.rs'))
            m = {'property': pid, 'variant': x, 'what_it_breaks': meta.get('what_it_breaks'), 'needs_to_manifest': meta.get('needs_to_manifest'),
                 'demo_path_in_repo': where, 'run_demo_cmd': cmd,
                 'what_i_ran': ['git worktree add (scratch) ; git apply patch.diff', 'cargo test --workspace --no-fail-fast --offline  -> %s' % res['steps']['suite_with_change'],
                                'demo with change -> exit %s' % rc1, 'demo without change -> exit %s' % rc2, './check C01..C20 --tier quick with VERIF_REPO=<scratch>'],
                 'checks_fired': fired, 'caught_by_own_property': res['caught_by_own_property'], 'caught': res['caught']}
            with open(os.path.join(sd, 'meta.json'), 'w') as f:
                json.dump(m, f, indent=1)
        return res
    finally:
        sh('git -C /repo worktree remove --force %s' % wt)
        shutil.rmtree(wt, ignore_errors=True)
        with open(os.path.join(HERE, 'notes', 'seed_confirm.jsonl'), 'a') as f:
            f.write(json.dumps(res) + '\n')
        print(json.dumps({k: v for k, v in res.items() if k != 'agent_meta'})[:1500])


if __name__ == '__main__':
    main()
