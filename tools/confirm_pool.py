#!/usr/bin/env python3
"""Confirm several sub-agent seeds in parallel:  tools/confirm_pool.py <out_root> <tag> <jobs> <Cxx> [<Cxx> ...]
Each job runs tools/confirm_seed.py with its own worker id (own worktree + target dir under /tmp)."""
import os
import queue
import subprocess
import sys
import threading

HERE = os.path.dirname(os.path.dirname(os.path.abspath(__file__)))


def main():
    root, tag, jobs = sys.argv[1], sys.argv[2], int(sys.argv[3])
    q = queue.Queue()
    for p in sys.argv[4:]:
        for x in ('a', 'b'):
            if os.path.exists(os.path.join(root, p, '%s.meta.json' % x)) and os.path.exists(os.path.join(root, p, '%s.patch.diff' % x)):
                q.put((p, x))

    def work(wid):
        while True:
            try:
                p, x = q.get_nowait()
            except queue.Empty:
                break
            r = subprocess.run([sys.executable, os.path.join(HERE, 'tools', 'confirm_seed.py'), os.path.join(root, p), x, 'p%s%d' % (tag, wid), tag],
                               text=True, capture_output=True)
            tail = (r.stdout + r.stderr).strip().splitlines()[-3:]
            print(p, x, 'rc=%d' % r.returncode, ' | '.join(tail), flush=True)
        import shutil
        shutil.rmtree('/tmp/confirm_target_p%s%d' % (tag, wid), ignore_errors=True)

    ts = [threading.Thread(target=work, args=(i,)) for i in range(jobs)]
    for t in ts:
        t.start()
    for t in ts:
        t.join()


if __name__ == '__main__':
    main()
