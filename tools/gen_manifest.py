#!/usr/bin/env python3
"""Writes /verif/MANIFEST.json from the table below (kept next to the rules so they stay in sync)."""
import json
import os
import sys

HERE = os.path.dirname(os.path.dirname(os.path.abspath(__file__)))
sys.path.insert(0, HERE)
from cfa.manifest_table import CLAIMS, NOT_APPLICABLE  # noqa

checks = []
for pid, c in sorted(CLAIMS.items()):
    checks.append({
        'property_id': pid,
        'quick_cmd': './check %s --tier quick' % pid,
        'thorough_cmd': './check %s --tier thorough' % pid,
        'evidence_file': 'evidence/%s.json' % pid,
        'replay_cmd_template': './check %s --explain {path}' % pid,
        'engine': 'mirfacts+cfa',
        'level_claimed': {'category': 'other', 'text': c['text'], 'design_ref': c['design_ref']},
        'level_note': c['note'],
        'technique': c['technique'],
    })
m = {
    'version': 1,
    'setup_cmd': 'cd mirfacts && cargo +nightly build --release --offline && cd .. && python3 -m cfa.extract quick >/dev/null',
    'hooks': {
        'guard': 'cachelito_verif',
        'enable': 'none needed: the analysis reads mir_built of the unmodified sources through a rustc wrapper (RUSTC_WRAPPER=mirfacts under cargo +nightly check)',
        'baseline_off_cmd': 'cd /repo && cargo test --workspace --no-fail-fast --offline',
        'source_commits': [],
        'add_only': True,
    },
    'engines': [
        {'name': 'mirfacts', 'path': 'mirfacts/', 'serves_properties': sorted(CLAIMS),
         'kind_free_text': 'rustc_private driver: dumps mir_built (resolved callees, types, constants, spans), ADTs, statics, impls as JSON; contains no rule'},
        {'name': 'cfa', 'path': 'cfa/', 'serves_properties': sorted(CLAIMS),
         'kind_free_text': 'Python static analyses over the facts: CFG/dominators/control dependence, origin resolution, guard held-sets (may/must), lock-order graph, '
                           'store/queue effect pairing, configuration specialiser, wrapper-shape rules on a generated fixture corpus, compile-fail witnesses'},
    ],
    'checks': checks,
    'not_applicable': [{'property_id': p, 'reason': r} for p, r in sorted(NOT_APPLICABLE.items())],
    'notes': 'Static analysis only: every verdict is computed from /repo\'s current working tree (facts are keyed by a digest of the sources). '
             'Nothing executes a cache operation. See DESIGN.md.',
}
with open(os.path.join(HERE, 'MANIFEST.json'), 'w') as f:
    json.dump(m, f, indent=1)
print('MANIFEST.json: %d checks, %d not_applicable' % (len(checks), len(m['not_applicable'])))
