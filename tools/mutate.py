#!/usr/bin/env python3
"""Both-ways testing: apply one catalogue mutation to a scratch copy of /repo (never /repo itself),
run the named checks against the copy (VERIF_REPO), and report which violations fired.

  tools/mutate.py list
  tools/mutate.py run <id>|all [--all-checks]
Results are appended to /verif/notes/mutation_results.jsonl.  The scratch copy lives in
/tmp/cachelito_mut and is removed afterwards."""
import json
import os
import re
import shutil
import subprocess
import sys
import time

HERE = os.path.dirname(os.path.dirname(os.path.abspath(__file__)))
ROOT = os.environ.get('MUT_ROOT', '/tmp/cachelito_mut')  # one per concurrent runner
SCRATCH = ROOT + '/repo'
M = []


def mut(id_, props, file, old, new, note='', count=1):
    M.append({'id': id_, 'props': props, 'file': file, 'old': old, 'new': new, 'note': note, 'count': count})


G = 'cachelito-core/src/global_cache.rs'
T = 'cachelito-core/src/thread_local_cache.rs'
A = 'cachelito-core/src/async_global_cache.rs'
U = 'cachelito-core/src/utils.rs'
MU = 'cachelito-macro-utils/src/lib.rs'
MS = 'cachelito-macros/src/lib.rs'
MA = 'cachelito-async-macros/src/lib.rs'
INV = 'cachelito-core/src/invalidation.rs'
ST = 'cachelito-core/src/stats.rs'
SR = 'cachelito-core/src/stats_registry.rs'
CE = 'cachelito-core/src/cache_entry.rs'
ME = 'cachelito-core/src/memory_estimator.rs'
KY = 'cachelito-core/src/keys.rs'

# 1-2 keys
mut('m01_sep_deleted_sync', ['C02'], MU, '''                    __key_parts.push((#arg_pats).to_cache_key());
                )*
                __key_parts.join("|")
            }}
        }
    } else if arg_pats.is_empty() {''', '''                    __key_parts.push((#arg_pats).to_cache_key());
                )*
                __key_parts.join("")
            }}
        }
    } else if arg_pats.is_empty() {''', '(measured) separator deleted for methods with args')
mut('m01b_sep_deleted_sync_free', ['C02'], MU, '''                __key_parts.push((#arg_pats).to_cache_key());
            )*
            __key_parts.join("|")''', '''                __key_parts.push((#arg_pats).to_cache_key());
            )*
            __key_parts.join("")''', '(measured) separator deleted for free functions')
mut('m02_async_display', ['C02'], MU, '''                __key_parts.push(format!("{:?}", #arg_pats));
            )*
            __key_parts.join("|")''', '''                __key_parts.push(format!("{}", #arg_pats));
            )*
            __key_parts.join("|")''', 'async free fn args rendered with Display (strings unquoted) - compiles only for Display types', 1)
mut('m02b_skip_receiver', ['C02'], MU, '''                let mut __key_parts = Vec::new();
                __key_parts.push(self.to_cache_key());
                #(''', '''                let mut __key_parts = Vec::new();
                #(''', 'sync methods: receiver no longer part of the key')
# 3-7 limit
mut('m03_random_forgets_store', ['C04'], G, '''                            if let Some(evict_key) = o.remove(pos) {
                                let mut map_write = self.map.write();
                                map_write.remove(&evict_key);
                            }
                        }
                    }
                    EvictionPolicy::FIFO | EvictionPolicy::LRU => {
                        // Keep trying''', '''                            if let Some(_evict_key) = o.remove(pos) {
                            }
                        }
                    }
                    EvictionPolicy::FIFO | EvictionPolicy::LRU => {
                        // Keep trying''', '(measured) Random arm forgets map.remove')
mut('m04_expired_left_in_queue', ['C04', 'C06'], G, '''            remove_key_from_global_cache(&mut map_write, &mut o, key);
            #[cfg(feature = "stats")]
            self.stats.record_miss();''', '''            let _ = &mut o;
            map_write.remove(key);
            #[cfg(feature = "stats")]
            self.stats.record_miss();''', '(measured) expired key left in the queue')
mut('m05_dedupe_removed', ['C04'], G, '''        let mut o = self.order.lock();
        if let Some(pos) = o.iter().position(|k| *k == key_s) {
            o.remove(pos);
        }
        o.push_back(key_s.clone());

        // Always handle''', '''        let mut o = self.order.lock();
        o.push_back(key_s.clone());

        // Always handle''', '(measured) re-stored key duplicated in the queue')
mut('m06_overflow_ge_sync', ['C04'], G, 'if o.len() > limit {', 'if o.len() >= limit {')
mut('m06b_overflow_gt_async', ['C04'], A, 'if self.cache.len() >= limit {', 'if self.cache.len() > limit {')
mut('m07_tl_no_eviction_call', ['C04'], T, '''            order.push_back(key.clone());

            // Only handle entry-count limits (not memory limits)
            self.handle_entry_limit_eviction(&mut order);''', '''            order.push_back(key.clone());''')
mut('m07b_async_mem_no_limit_eviction', ['C04'], A, '''        // Handle entry-count limits (reuse the same method)
        self.handle_entry_limit_eviction(&mut order);''', '')
# 8-9 memory
mut('m08_oversize_ge', ['C05'], G, 'if new_value_size > max_mem {', 'if new_value_size >= max_mem {')
mut('m08b_fit_lt', ['C05'], G, 'if current_mem <= max_mem {', 'if current_mem < max_mem {')
mut('m08c_async_fit_ignores_new', ['C05'], A, 'if current_mem + value_size <= max_mem {', 'if current_mem <= max_mem {')
mut('m08d_oversize_removed_async', ['C05'], A, '''            if value_size > max_mem {''', '''            if false && value_size > max_mem {''')
mut('m09_string_len', ['C05'], ME, 'std::mem::size_of::<Self>() + self.capacity()', 'std::mem::size_of::<Self>() + self.len()')
mut('m02c_key_precision', ['C02'], KY, 'format!("{:?}", self)', 'format!("{:.1?}", self)', 'floats that differ after the first decimal share a key')
mut('m02d_async_part_precision', ['C02'], MU, '                __key_parts.push(format!("{:?}", #arg_pats));\n            )*', '                __key_parts.push(format!("{:.3?}", #arg_pats));\n            )*', 'async free fn: float arguments truncated to 3 decimals in the key')
mut('m05x_fit_sum_counts_entries', ['C05'], G, '                        .map(|e| e.value.estimate_memory())\n                        .sum::<usize>()', '                        .map(|e| crate::MemoryEstimator::estimate_memory(e))\n                        .sum::<usize>()', 'fit test sums whole entries (value + bookkeeping): needless evictions')
mut('m08x_tlru_weighted_hits_floored', ['C08'], U, 'Some(weight) => frequency * weight,', 'Some(weight) => (frequency * weight).floor(),', 'few hits with weight < 1 score exactly 0, like a never-hit entry')
mut('m09y_insert_result_skips_present_key', ['C09'], G, '''        if let Ok(v) = value {
            self.insert(key, Ok(v.clone()));''', '''        if let Ok(v) = value {
            if self.map.read().contains_key(key) {
                return;
            }
            self.insert(key, Ok(v.clone()));''', 'a refreshed Ok is dropped while the stale entry is still present (invalidate_on)')
mut('m15x_register_clone_and_swap', ['C15'], SR, '''    let mut registry = STATS_REGISTRY.write();
    registry.insert(name.to_string(), stats);''', '''    let mut updated = STATS_REGISTRY.read().clone();
    updated.insert(name.to_string(), stats);
    *STATS_REGISTRY.write() = updated;''', 'two caches registering at the same time: one registration is lost')
mut('m15c_revert_paren_fix', ['C09'], MS, '''            let mut ty: &syn::Type = ty;
            while let syn::Type::Paren(p) = ty {
                ty = &p.elem;
            }
            quote! { #ty }''', '''            quote! { #ty }''', 'revert of fix D8 (sync macro)')
mut('m15d_revert_turbofish_fix', ['C09'], MA, '''            .replace(' ', "")
            .replace("::<", "<");''', '''            .replace(' ', "");''', 'revert of fix D9 (async macro)')
mut('m04x_mirrored_queue_index', ['C04'], G, 'if let Some(pos) = o.iter().position(|k| *k == key_s) {', 'if let Some(pos) = o.iter().rev().position(|k| *k == key_s) {', 'index counted from the back, removal counts from the front', count=2)
mut('m13x_queue_removal_in_debug_assert', ['C13'], MS, '                                order_write.remove(pos);', '                                debug_assert!(order_write.remove(pos).is_some());', 'the queue removal of the check callback exists in debug builds only')
mut('m08y_policy_eq_wrong_arm', ['C08'], 'cachelito-core/src/eviction_policy.rs', '(EvictionPolicy::TLRU, EvictionPolicy::TLRU) => true,', '(EvictionPolicy::LRU, EvictionPolicy::TLRU) => true,', 'TLRU == TLRU is false: the async recency refresh never runs under TLRU')
mut('m15y_registry_name_lowercased', ['C15'], SR, 'registry.insert(name.to_string(), stats);', 'registry.insert(name.to_ascii_lowercase(), stats);', 'two caches whose names differ only in case share one slot')
mut('m18x_probe_before_queue_lock', ['C18'], A, """        let mut order = self.order.lock();

        // Check if another task already inserted this key while we were computing
        if self.is_already_key_inserted(key, &mut order) {
            return;
        }

        // Handle entry-count limits""", """        let replaces_entry = self.cache.contains_key(key);
        let mut order = self.order.lock();

        // Check if another task already inserted this key while we were computing
        if replaces_entry && self.is_already_key_inserted(key, &mut order) {
            return;
        }

        // Handle entry-count limits""", 'stale presence probe: two tasks missing on one key queue it twice')
mut('m09c_vec_buffer_elem_size', ['C05'], ME, 'let buffer = self.capacity() * size_of::<T>();', 'let buffer = self.capacity() * size_of::<usize>();', 'buffer counted in words, not in elements')
mut('m09d_option_double_counts_inline', ['C05'], ME, '.map_or(0, |val| val.estimate_memory() - size_of_val(val))', '.map_or(0, |val| val.estimate_memory())', 'payload inline size counted twice')
mut('m09e_result_err_arm', ['C05'], ME, 'Err(err) => err.estimate_memory() - size_of_val(err),', 'Err(_) => 0,', 'heap owned by the Err payload ignored')
mut('m09f_vec_len', ['C05'], ME, 'let buffer = self.capacity() * size_of::<T>();', 'let buffer = self.len() * size_of::<T>();', 'length, not capacity')
mut('m09b_tuple3_forgets_field', ['C05'], ME, '''            + (self.1.estimate_memory() - size_of_val(&self.1))
            + (self.2.estimate_memory() - size_of_val(&self.2))''', '''            + (self.1.estimate_memory() - size_of_val(&self.1))''')
# 10-11 ttl
mut('m10_expiry_gt', ['C06'], CE, 'self.inserted_at.elapsed().as_secs() >= ttl_secs', 'self.inserted_at.elapsed().as_secs() > ttl_secs', '(measured)')
mut('m10b_expiry_millis', ['C06'], CE, 'self.inserted_at.elapsed().as_secs() >= ttl_secs', '(self.inserted_at.elapsed().as_millis() as u64) >= ttl_secs')
mut('m10c_none_expires', ['C06'], CE, '''        } else {
            false
        }
    }

    /// Increments''', '''        } else {
            true
        }
    }

    /// Increments''')
mut('m10d_async_expiry_gt', ['C06'], A, '                age >= ttl\n', '                age > ttl\n')
mut('m11_async_serves_expired_fifo', ['C06'], A, '            if !is_expired {', '            if !is_expired || self.policy == EvictionPolicy::FIFO {')
# 12 orientation
mut('m12_touch_front', ['C07'], U, '''        order.remove(pos);
        order.push_back(key.to_string());
    }
}''', '''        order.remove(pos);
        order.push_front(key.to_string());
    }
}''')
mut('m12b_fifo_hit_reorders', ['C07'], G, '''                EvictionPolicy::FIFO | EvictionPolicy::Random => {
                    // No update needed for FIFO or Random
                }''', '''                EvictionPolicy::FIFO => {
                    move_key_to_end(&mut self.order.lock(), key);
                }
                EvictionPolicy::Random => {}''')
mut('m12c_victim_from_back', ['C07'], A, 'while let Some(evict_key) = order.pop_front() {', 'while let Some(evict_key) = order.pop_back() {')
# 13-14 LFU/ARC/TLRU
mut('m13_tlru_not_counted', ['C08'], G, '''                    move_key_to_end(&mut self.order.lock(), key);
                    self.increment_frequency(key);
                }
                EvictionPolicy::FIFO''', '''                    move_key_to_end(&mut self.order.lock(), key);
                }
                EvictionPolicy::FIFO''', '(measured)')
mut('m13b_increment_noop', ['C08'], CE, 'self.frequency = self.frequency.saturating_add(1);', 'self.frequency = self.frequency.saturating_add(0);')
mut('m13c_start_at_one', ['C08'], CE, '''            inserted_at: Instant::now(),
            frequency: 0,''', '''            inserted_at: Instant::now(),
            frequency: 1,''')
mut('m14_min_scan_gt', ['C08'], U, '''            if entry.frequency < min_freq {''', '''            if entry.frequency > min_freq {''')
mut('m14b_scan_stops_early', ['C08'], A, '''                if score < best_score {
                    best_score = score;
                    best_evict_key = Some(evict_key.clone());
                }
            }
        }

        best_evict_key
    }

    /// Finds the key with the lowest TLRU''', '''                if score < best_score {
                    best_score = score;
                    best_evict_key = Some(evict_key.clone());
                    break;
                }
            }
        }

        best_evict_key
    }

    /// Finds the key with the lowest TLRU''')
# 15-16 Result
mut('m15_std_result_not_recognised', ['C09'], MS, '''            || s.starts_with("std::result::Result<")
''', '', '(measured)')
mut('m16_insert_result_stores_err', ['C09'], G, '''        if let Ok(v) = value {
            self.insert(key, Ok(v.clone()));
        }''', '''        match value {
            Ok(v) => self.insert(key, Ok(v.clone())),
            Err(e) => self.insert(key, Err(e.clone())),
        }''')
# 17-18 predicates
mut('m17_cache_if_dropped_thread', ['C10'], MS, '''    let cache_condition = generate_cache_condition(cache_if, has_max_memory, is_result);

    quote! {
        thread_local! {''', '''    let cache_condition = generate_cache_condition(&None, has_max_memory, is_result);

    quote! {
        thread_local! {''')
mut('m17b_cache_if_negated_with_memory', ['C10'], MS, '''    if let Some(pred_fn) = cache_if {
        quote! {''', '''    if let (Some(pred_fn), true) = (cache_if, has_max_memory) {
        quote! {
            if !#pred_fn(&__key, &__result) {
                #insert_call
            }
        }
    } else if let Some(pred_fn) = cache_if {
        quote! {''')
mut('m18_invalidate_on_inverted', ['C11'], MS, '            if !#pred_fn(&__key, &cached) {', '            if #pred_fn(&__key, &cached) {')
# 19-20 group invalidation
mut('m19_event_reads_tag_table', ['C12'], INV, '''        let cache_names = self
            .event_to_caches
            .read()''', '''        let cache_names = self
            .tag_to_caches
            .read()''')
mut('m19b_events_filed_under_tags', ['C12'], INV, 'let mut event_map = self.event_to_caches.write();', 'let mut event_map = self.tag_to_caches.write();')
mut('m20_clear_store_only', ['C12'], MS, '''                            #cache_ident.write().clear();
                            order_write.clear();''', '''                            #cache_ident.write().clear();
                            let _ = &mut order_write;''')
mut('m20b_count_outside_lookup', ['C12'], INV, '''            if let Some(callback) = callbacks.get(name) {
                callback();
                count += 1;
            }''', '''            if let Some(callback) = callbacks.get(name) {
                callback();
            }
            count += 1;''')
# 21 precise invalidation
mut('m21_conditional_forgets_queue', ['C13'], MS, '''                            map_write.remove(key);
                            if let Some(pos) = order_write.iter().position(|k| k == key) {
                                order_write.remove(pos);
                            }''', '''                            map_write.remove(key);
                            let _ = &mut order_write;''')
mut('m21b_conditional_removes_all', ['C13'], MA, '.filter(|entry| invalidation_check(entry.key().as_str()))', '.filter(|entry| invalidation_check(entry.key().as_str()) || true)')
mut('m21c_all_with_wrong_name', ['C13'], INV, 'callback(&|key: &str| predicate(&cache_name_clone, key));', 'callback(&|key: &str| predicate(key, key));')
# 22 scope
mut('m22_default_scope_thread', ['C14'], MU, 'scope: quote! { cachelito_core::CacheScope::Global },', 'scope: quote! { cachelito_core::CacheScope::ThreadLocal },')
mut('m22b_branch_inverted', ['C14'], MS, 'if __scope == cachelito_core::CacheScope::ThreadLocal {', 'if __scope != cachelito_core::CacheScope::ThreadLocal {')
# 23 stats
mut('m23_hit_on_expired', ['C15'], G, '''            remove_key_from_global_cache(&mut map_write, &mut o, key);
            #[cfg(feature = "stats")]
            self.stats.record_miss();''', '''            remove_key_from_global_cache(&mut map_write, &mut o, key);
            #[cfg(feature = "stats")]
            self.stats.record_hit();''')
mut('m23b_swapped_async', ['C15'], A, '''                #[cfg(feature = "stats")]
                self.stats.record_hit();''', '''                #[cfg(feature = "stats")]
                self.stats.record_miss();''')
mut('m23c_non_atomic', ['C15'], ST, 'self.hits.fetch_add(1, Ordering::Relaxed);', 'self.hits.store(self.hits.load(Ordering::Relaxed) + 1, Ordering::Relaxed);')
mut('m23d_names_ignore_name_attr', ['C15', 'C12'], MS, '''        block,
        &fn_name_str,
        is_result,
        &attrs,''', '''        block,
        &ident.to_string(),
        is_result,
        &attrs,''')
mut('m23e_double_count_lfu', ['C15'], A, '''                    EvictionPolicy::LFU => {
                        // Increment frequency counter
                        entry_ref.2 = entry_ref.2.saturating_add(1);
                    }''', '''                    EvictionPolicy::LFU => {
                        // Increment frequency counter
                        entry_ref.2 = entry_ref.2.saturating_add(1);
                        #[cfg(feature = "stats")]
                        self.stats.record_hit();
                    }''')
# 24 panics
mut('m24_revert_d1', ['C16'], T, '''                        if let Some(evict_key) = min_freq_key {
                            self.remove_key_with_order(order, &evict_key);
                        }''', '''                        if let Some(evict_key) = min_freq_key {
                            self.remove_key(&evict_key);
                        }''')
mut('m24b_new_unwrap', ['C16'], G, '''        if let Some(entry) = m.get_mut(key) {
            entry.increment_frequency();
        }''', '''        m.get_mut(key).unwrap().increment_frequency();''')
# 25 deadlock
mut('m25_revert_d2', ['C17'], MS, '''                        let mut order_write = #order_ident.lock();
                        let mut map_write = #cache_ident.write();
''', '''                        let mut map_write = #cache_ident.write();
                        let mut order_write = #order_ident.lock();
''')
mut('m25b_async_ref_while_locking', ['C17'], A, '''                drop(entry_ref);

                // Record cache hit''', '''                let _keep = entry_ref;

                // Record cache hit''')
mut('m25c_stats_under_store_lock', ['C17'], SR, '''    let mut registry = STATS_REGISTRY.write();
    registry.insert(name.to_string(), stats);''', '''    let mut registry = STATS_REGISTRY.write();
    let _n = list();
    registry.insert(name.to_string(), stats);''', 'self-deadlock: read under own write lock')
# 26 consistency
mut('m26_revert_d3_clear', ['C18'], G, '''        let mut o = self.order.lock();
        self.map.write().clear();
        o.clear();''', '''        self.map.write().clear();
        self.order.lock().clear();''')
mut('m26b_revert_d3_async_purge', ['C18'], A, '''            let mut order = self.order.lock();
            self.cache.remove(key);
            order.retain(|k| k != key);''', '''            self.cache.remove(key);
            let mut order = self.order.lock();
            order.retain(|k| k != key);''')
mut('m26c_no_membership_test', ['C18', 'C07'], G, '''                            if map_write.contains_key(&evict_key) {
                                map_write.remove(&evict_key);
                                break;
                            }''', '''                            map_write.remove(&evict_key);
                            break;''', 'orphan tolerance removed (limit path)')
# 27 attributes
mut('m27_mb_decimal', ['C19'], MU, 'Ok(n) => n * 1024 * 1024,', 'Ok(n) => n * 1000 * 1000,')
mut('m27b_limit_spliced_as_ttl', ['C19'], MS, '''            #limit_expr,
            #max_memory_expr,
            #policy_expr,
            #ttl_expr,
            #frequency_weight_expr,
            &#stats_ident,
        );
        #[cfg(not''', '''            #limit_expr,
            #max_memory_expr,
            #policy_expr,
            None,
            #frequency_weight_expr,
            &#stats_ident,
        );
        #[cfg(not''', 'ttl ignored in the global branch')
mut('m27c_unknown_attr_ignored', ['C19'], MU, '''                return Err(quote! { compile_error!(#err_msg) });
            }
        }
    }

    Ok(attrs)
}

/// Parse sync''', '''                let _ = err_msg;
            }
        }
    }

    Ok(attrs)
}

/// Parse sync''', 'async macro silently ignores unknown attributes')
mut('m27d_async_policy_table', ['C19'], 'cachelito-core/src/eviction_policy.rs', '"arc" => EvictionPolicy::ARC,', '"arc" => EvictionPolicy::LFU,')
# 28 async suspension
mut('m28_lock_across_await', ['C20'], MA, '''        // Execute original async function (cache miss or expired)
        let __result = (async #block).await;''', '''        // Execute original async function (cache miss or expired)
        let __order_guard = #order_ident.lock();
        let __result = (async #block).await;
        drop(__order_guard);''')
mut('m28b_placeholder_before_await', ['C20'], MA, '''        // Execute original async function (cache miss or expired)
        let __result = (async #block).await;''', '''        // Execute original async function (cache miss or expired)
        __cache.insert(&__key, Default::default());
        let __result = (async #block).await;''', 'compiles only for Default return types; may fail to build')
# reverts of the other fixes
mut('m29_revert_d4', ['C01', 'C11'], A, '''            self.cache.remove(key);
            order.retain(|k| k != key);
        }
        false''', '''            return true;
        }
        false''')
mut('m30_revert_d5', ['C07', 'C08'], A, 'if (self.limit.is_some() || self.max_memory.is_some())', 'if (self.limit.is_some())')
mut('m31_revert_d6', ['C08'], A, 'let position_weight = (idx + 1) as f64;', 'let position_weight = (order.len() - idx) as f64;', count=2)
mut('m32_stale_value_served_under_wrong_key', ['C01'], G, '            if let Some(entry) = m.get(key) {', '            if let Some(entry) = m.get(key.trim()) {', 'lookup under a transformed key')
mut('m33_thread_branch_never_stores', ['C03'], MS, '''        let __result = (|| #block)();
        #cache_condition
        __result
    }
}
/// Check if max_memory''', '''        let __result = (|| #block)();
        __result
    }
}
/// Check if max_memory''', 'thread-local branch never stores')
mut('m34_async_lfu_pops_front_instead', ['C04', 'C08'], A, '''                        if let Some(evict_key) = self.find_min_frequency_key(order) {
                            self.cache.remove(&evict_key);
                            order.retain(|k| k != &evict_key);
                        }
                    }
                    EvictionPolicy::ARC => {
                        if let Some(evict_key) = self.find_arc_eviction_key(order) {''', '''                        if let Some(evict_key) = self.find_min_frequency_key(order) {
                            self.cache.remove(&evict_key);
                            order.pop_front();
                        }
                    }
                    EvictionPolicy::ARC => {
                        if let Some(evict_key) = self.find_arc_eviction_key(order) {''', 'LFU victim removed from the store, but the queue loses its front key')
mut('m35_async_memory_arc_retains_other', ['C05'], A, '''                        if let Some(evict_key) = self.find_arc_eviction_key(&*order) {
                            self.cache.remove(&evict_key);
                            order.retain(|k| k != &evict_key);
                            true''', '''                        if let Some(evict_key) = self.find_arc_eviction_key(&*order) {
                            self.cache.remove(&evict_key);
                            order.retain(|k| k != key);
                            true''', 'memory loop: ARC victim leaves the store, the queue drops the key being stored instead')


# ---- behaviour-preserving edits: every check must stay silent (run with all 20 checks) -------------
def eqv(id_, file, old, new, note='', count=1):
    M.append({'id': id_, 'props': [], 'file': file, 'old': old, 'new': new, 'note': note, 'count': count, 'equiv': True})


eqv('e01_match_form', G, """            if let Some(entry) = m.get(key) {
                if entry.is_expired(self.ttl) {
                    expired = true;
                } else {
                    result = Some(entry.value.clone());
                }
            }""", """            match m.get(key) {
                Some(entry) if entry.is_expired(self.ttl) => expired = true,
                Some(entry) => result = Some(entry.value.clone()),
                None => {}
            }""", 'if-let -> match with guard')
eqv('e02_swapped_operands', G, 'if o.len() > limit {', 'if limit < o.len() {', 'comparison operands swapped')
eqv('e03_extract_helper', G, """        let mut o = self.order.lock();
        if let Some(pos) = o.iter().position(|k| *k == key_s) {
            o.remove(pos);
        }
        o.push_back(key_s.clone());

        // Always handle""", """        let mut o = self.order.lock();
        Self::requeue(&mut o, &key_s);

        // Always handle""", 'dedupe+push extracted (helper added by e03b)')
eqv('e04_de_morgan', A, 'if (self.limit.is_some() || self.max_memory.is_some())', 'if !(self.limit.is_none() && self.max_memory.is_none())', 'De Morgan on the bound test')
eqv('e05_seqcst', ST, 'self.hits.fetch_add(1, Ordering::Relaxed);', 'self.hits.fetch_add(1, Ordering::SeqCst);', 'stronger ordering')
eqv('e06_loop_match', A, """                        while let Some(evict_key) = order.pop_front() {
                            if self.cache.contains_key(&evict_key) {
                                self.cache.remove(&evict_key);
                                break;
                            }
                            // Key doesn't exist in cache (already removed), try next one
                        }""", """                        loop {
                            match order.pop_front() {
                                Some(evict_key) => {
                                    if self.cache.contains_key(&evict_key) {
                                        self.cache.remove(&evict_key);
                                        break;
                                    }
                                }
                                None => break,
                            }
                        }""", 'while-let -> loop/match')
eqv('e07_is_expired_match', CE, """        if let Some(ttl_secs) = ttl {
            self.inserted_at.elapsed().as_secs() >= ttl_secs
        } else {
            false
        }""", """        match ttl {
            Some(ttl_secs) => self.inserted_at.elapsed().as_secs() >= ttl_secs,
            None => false,
        }""", 'if-let -> match')
eqv('e08_negated_fit', G, """                if current_mem <= max_mem {
                    break;
                }""", """                if !(current_mem > max_mem) {
                    break;
                }""", 'fit test written as negation')
eqv('e09_retain_instead_of_position', U, """    let removed_from_order = if let Some(pos) = order.iter().position(|k| k == key) {
        order.remove(pos);
        true
    } else {
        false
    };""", """    let before = order.len();
    order.retain(|k| k != key);
    let removed_from_order = order.len() != before;""", 'retain instead of position+remove (no duplicates in the queue)')
eqv('e10_clear_named_guards', MS, """                            let mut order_write = #order_ident.lock();
                            #cache_ident.write().clear();
                            order_write.clear();""", """                            let mut order_write = #order_ident.lock();
                            let mut map_write = #cache_ident.write();
                            map_write.clear();
                            order_write.clear();""", 'named guards in the clear callback')
eqv('e11_scan_le', U, "            if entry.frequency < min_freq {", "            if entry.frequency <= min_freq {", 'ties are arbitrary: <= is as good as <')
eqv('e12_async_insert_order_swapped', A, """        // Add the new entry to the order queue
        order.push_back(key.to_string());

        // Insert into cache with frequency initialized to 0
        self.cache.insert(key.to_string(), (value, timestamp, 0));
    }

    /// Checks if a key""", """        // Insert into cache with frequency initialized to 0
        self.cache.insert(key.to_string(), (value, timestamp, 0));

        // Add the new entry to the order queue
        order.push_back(key.to_string());
    }

    /// Checks if a key""", 'store and queue insertion swapped inside the critical section')
eqv('e13_renamed_macro_locals', MS, """        let __key = #key_expr;
        if let Some(cached) = __cache.get(&__key) {
            #invalidation_check
        }

        let __result = (|| #block)();
        #cache_condition
        __result
    }
}

/// A procedural macro""", """        let __key = #key_expr;
        let __lookup = __cache.get(&__key);
        if let Some(cached) = __lookup {
            #invalidation_check
        }

        let __result = (|| #block)();
        #cache_condition
        __result
    }
}

/// A procedural macro""", 'lookup result bound to a local first (global branch)')
eqv('e14_other_safe_separator', MU, """                __key_parts.push((#arg_pats).to_cache_key());
            )*
            __key_parts.join("|")""", """                __key_parts.push((#arg_pats).to_cache_key());
            )*
            __key_parts.join("\\u{1f}|")""", 'a different separator that Debug never emits unescaped')
eqv('e15_rename_eviction_routine', 'cachelito-core/src/*', 'handle_entry_limit_eviction', 'enforce_entry_limit', 'private method renamed in all three caches')
eqv('e16_rename_selectors', 'cachelito-core/src/*', 'find_arc_eviction_key', 'pick_arc_victim', 'selector renamed (utils + async)')
eqv('e17_rename_remove_helper', 'cachelito-core/src/*', 'remove_from_maps', 'drop_key_everywhere', 'private helper renamed')
eqv('e18_rename_invalidate_caches', 'cachelito-core/src/*', 'invalidate_caches', 'run_clear_callbacks', 'private registry routine renamed')
eqv('e19_rename_is_already', 'cachelito-core/src/*', 'is_already_key_inserted', 'replace_existing_entry', 'private async helper renamed')
eqv('e23_pred_gets_a_clone', MA, 'if !#pred_fn(&__key, &__cached) {', 'if !#pred_fn(&__key, &__cached.clone()) {', 'predicate is handed a clone of the cached value')
eqv('e24_now_helper', A, '''        let timestamp = std::time::SystemTime::now()
            .duration_since(std::time::UNIX_EPOCH)
            .unwrap()
            .as_secs();

        let mut order = self.order.lock();

        // Check if another task already inserted this key while we were computing
        if self.is_already_key_inserted(key, &mut order) {
            return;
        }

        // Handle entry-count limits''', '''        let timestamp = Self::unix_now();

        let mut order = self.order.lock();

        // Check if another task already inserted this key while we were computing
        if self.is_already_key_inserted(key, &mut order) {
            return;
        }

        // Handle entry-count limits''', 'clock read moved into a helper (helper added by apply)')
eqv('e25_estimator_rewrites', ME, 'let buffer = self.capacity() * size_of::<T>();', 'let buffer = size_of::<T>() * self.capacity();', 'Vec estimator: product operands swapped')
eqv('e29_estimator_size_of_elem', ME, '.map(|item| item.estimate_memory().saturating_sub(size_of_val(item)))', '.map(|item| item.estimate_memory().saturating_sub(size_of::<T>()))', 'size_of::<T>() for size_of_val(item)')
eqv('e30_estimator_size_of_val_self', ME, '        let base = size_of::<Self>();', '        let base = size_of_val(self);', 'size_of_val(self) for size_of::<Self>()')
eqv('e26_option_estimator_match', ME, '''        size_of::<Self>()
            + self
                .as_ref()
                .map_or(0, |val| val.estimate_memory() - size_of_val(val))''', '''        size_of::<Self>()
            + match self {
                Some(val) => val.estimate_memory() - size_of_val(val),
                None => 0,
            }''', 'Option estimator written as a match')
eqv('e27_tlru_factor_order', U, 'Some(weight) => frequency * weight,', 'Some(weight) => weight * frequency,', 'operands of the weighted hit count swapped')
eqv('e28_tlru_score_order', U, 'let score = frequency_component * position_weight * age_factor;', 'let score = age_factor * (position_weight * frequency_component);', 'score factors reordered')
eqv('e31_position_predicate_spelling', U, "if let Some(pos) = order.iter().position(|k| k == key) {\n        order.remove(pos);\n        order.push_back", "if let Some(pos) = order.iter().position(|k| key == k.as_str()) {\n        order.remove(pos);\n        order.push_back", 'equality predicate written the other way round')
eqv('e32_registry_to_owned', SR, 'registry.insert(name.to_string(), stats);', 'registry.insert(name.to_owned(), stats);', 'to_owned for to_string')
eqv('e33_policy_eq_matches', 'cachelito-core/src/eviction_policy.rs', """        match (self, other) {
            (EvictionPolicy::FIFO, EvictionPolicy::FIFO) => true,
            (EvictionPolicy::LRU, EvictionPolicy::LRU) => true,
            (EvictionPolicy::LFU, EvictionPolicy::LFU) => true,
            (EvictionPolicy::ARC, EvictionPolicy::ARC) => true,
            (EvictionPolicy::Random, EvictionPolicy::Random) => true,
            (EvictionPolicy::TLRU, EvictionPolicy::TLRU) => true,
            _ => false,
        }""", """        std::mem::discriminant(self) == std::mem::discriminant(other)""", 'variant equality through mem::discriminant')
eqv('e35_position_let_bound', G, """        let mut o = self.order.lock();
        if let Some(pos) = o.iter().position(|k| *k == key_s) {
            o.remove(pos);
        }
        o.push_back(key_s.clone());

        // Always handle entry-count limits, regardless of memory limits""", """        let mut o = self.order.lock();
        let found = o.iter().position(|k| *k == key_s);
        if let Some(pos) = found {
            o.remove(pos);
        }
        o.push_back(key_s.clone());

        // Always handle entry-count limits, regardless of memory limits""", 'search result bound to a local first')
eqv('e36_policy_eq_matches_macro', 'cachelito-core/src/eviction_policy.rs', """        match (self, other) {
            (EvictionPolicy::FIFO, EvictionPolicy::FIFO) => true,
            (EvictionPolicy::LRU, EvictionPolicy::LRU) => true,
            (EvictionPolicy::LFU, EvictionPolicy::LFU) => true,
            (EvictionPolicy::ARC, EvictionPolicy::ARC) => true,
            (EvictionPolicy::Random, EvictionPolicy::Random) => true,
            (EvictionPolicy::TLRU, EvictionPolicy::TLRU) => true,
            _ => false,
        }""", """        matches!(
            (self, other),
            (EvictionPolicy::FIFO, EvictionPolicy::FIFO)
                | (EvictionPolicy::LRU, EvictionPolicy::LRU)
                | (EvictionPolicy::LFU, EvictionPolicy::LFU)
                | (EvictionPolicy::ARC, EvictionPolicy::ARC)
                | (EvictionPolicy::Random, EvictionPolicy::Random)
                | (EvictionPolicy::TLRU, EvictionPolicy::TLRU)
        )""", 'the same table written with matches!')
eqv('e20_negated_overflow', G, 'if o.len() > limit {', 'if !(o.len() <= limit) {', 'overflow test written through a negation')
eqv('e21_negated_async_expiry', A, '                age >= ttl\n', '                !(age < ttl)\n', 'expiry test written through a negation')
eqv('e22_negated_oversize', G, 'if new_value_size > max_mem {', 'if !(new_value_size <= max_mem) {', 'oversize test written through a negation')
mut('m36_negated_overflow_off_by_one', ['C04'], G, 'if o.len() > limit {', 'if !(o.len() < limit) {', 'off-by-one hidden behind a negation')
mut('m37_negated_fit_off_by_one', ['C05'], G, """                if current_mem <= max_mem {
                    break;
                }""", """                if !(current_mem >= max_mem) {
                    break;
                }""", 'fit test < instead of <= hidden behind a negation')


def apply(m):
    if os.path.exists(ROOT):
        shutil.rmtree(ROOT)
    os.makedirs(ROOT)
    subprocess.check_call(['rsync', '-a', '--exclude', 'target', '--exclude', '.git', '/repo/', SCRATCH + '/'])
    if m['file'].endswith('/*'):
        # rename across a whole source directory
        tot = 0
        root = os.path.join(SCRATCH, m['file'][:-2])
        for dp, dn, fn in os.walk(root):
            for f in fn:
                if f.endswith('.rs'):
                    q = os.path.join(dp, f)
                    txt = open(q).read()
                    c = txt.count(m['old'])
                    if c:
                        tot += c
                        open(q, 'w').write(txt.replace(m['old'], m['new']))
        return None if tot else 'anchor matched 0 times'
    p = os.path.join(SCRATCH, m['file'])
    s = open(p).read()
    c = s.count(m['old'])
    if c != m['count']:
        return 'anchor matched %d times (expected %d)' % (c, m['count'])
    s = s.replace(m['old'], m['new'])
    if m['id'] == 'e24_now_helper':
        s = s.replace("    fn is_already_key_inserted(", "    fn unix_now() -> u64 {\n        std::time::SystemTime::now().duration_since(std::time::UNIX_EPOCH).unwrap().as_secs()\n    }\n\n    fn is_already_key_inserted(", 1)
    if m['id'] == 'e03_extract_helper':
        s = s.replace("    fn handle_entry_limit_eviction(&self, mut o: &mut MutexGuard<RawMutex, VecDeque<String>>) {",
                      "    fn requeue(o: &mut VecDeque<String>, key_s: &String) {\n        if let Some(pos) = o.iter().position(|k| *k == *key_s) {\n            o.remove(pos);\n        }\n        o.push_back(key_s.clone());\n    }\n\n    fn handle_entry_limit_eviction(&self, mut o: &mut MutexGuard<RawMutex, VecDeque<String>>) {")
    open(p, 'w').write(s)
    return None


def run_checks(props):
    env = dict(os.environ)
    env['VERIF_REPO'] = SCRATCH
    out = {}
    for p in props:
        r = subprocess.run([os.path.join(HERE, 'check'), p, '--tier', 'quick'], env=env, text=True, capture_output=True, cwd=HERE)
        keys = re.findall(r'key=(\S+)', r.stdout)
        fc = [k for k in keys if 'fail-closed' in k]
        build_fail = 'does not build' in r.stdout
        out[p] = {'exit': r.returncode, 'keys': keys, 'fail_closed': bool(fc), 'build_fail': build_fail,
                  'tail': r.stdout[-600:] if (build_fail or not keys and r.returncode) else ''}
    return out


ALL = ['C%02d' % i for i in range(1, 21)]


def main():
    if len(sys.argv) < 2 or sys.argv[1] == 'list':
        for m in M:
            print(m['id'], m['props'], m['file'], '-', m['note'])
        return
    which = sys.argv[2]
    allchecks = '--all-checks' in sys.argv
    sel = M if which == 'all' else [m for m in M if any(m['id'].startswith(w) for w in which.split(','))]
    for m in sel:
        t0 = time.time()
        err = apply(m)
        if err:
            res = {'id': m['id'], 'error': err}
        else:
            props = ALL if (allchecks or m.get('equiv')) else m['props']
            r = run_checks(props)
            fired = {p: v['keys'] for p, v in r.items() if v['keys']}
            res = {'id': m['id'], 'equiv': bool(m.get('equiv')), 'expected': m['props'], 'fired': fired, 'caught': any(r.get(p, {}).get('keys') and not r[p]['build_fail'] for p in m['props']),
                   'build_fail': any(v['build_fail'] for v in r.values()), 'tails': {p: v['tail'] for p, v in r.items() if v['tail']}, 'wall_s': round(time.time() - t0, 1), 'note': m['note']}
        print(json.dumps(res))
        with open(os.path.join(HERE, 'notes', 'mutation_results.jsonl'), 'a') as f:
            f.write(json.dumps(res) + '\n')
    shutil.rmtree(ROOT, ignore_errors=True)


if __name__ == '__main__':
    main()
