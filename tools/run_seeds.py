#!/usr/bin/env python3
"""Re-run the quick checks against every kept seeded change (/verif/seeded/<id>/patch.diff).

  tools/run_seeds.py [<seed dir name> ...] [--via-repo]

Default: the patch is applied to a scratch copy of /repo (VERIF_REPO); --via-repo applies it to
/repo itself with `git apply` and undoes it with `git checkout -- .` straight afterwards.
Updates checks_fired / caught in each meta.json and prints a coverage table."""
import json
import os
import re
import shutil
import subprocess
import sys

HERE = os.path.dirname(os.path.dirname(os.path.abspath(__file__)))
SEEDED = os.path.join(HERE, 'seeded')
SCRATCH = '/tmp/cachelito_seedrun/repo'


def checks(env):
    fired = {}
    for i in range(1, 21):
        p = 'C%02d' % i
        r = subprocess.run([os.path.join(HERE, 'check'), p, '--tier', 'quick'], env=env, text=True, capture_output=True, cwd=HERE)
        keys = re.findall(r'key=(\S+)', r.stdout)
        if keys:
            fired[p] = keys
    return fired


def one(nm, via_repo=False):
    if True:
        d = os.path.join(SEEDED, nm)
        patch = os.path.join(d, 'patch.diff')
        if not os.path.exists(patch):
            return None
        meta = json.load(open(os.path.join(d, 'meta.json')))
        env = dict(os.environ)
        SCRATCH_ROOT = '/tmp/cachelito_seedrun_%s' % nm
        SCRATCH = SCRATCH_ROOT + '/repo'
        if via_repo:
            assert subprocess.run(['git', '-C', '/repo', 'status', '--short'], capture_output=True, text=True).stdout.strip() == '', '/repo not clean'
            subprocess.check_call(['git', '-C', '/repo', 'apply', patch])
            try:
                fired = checks(env)
            finally:
                subprocess.check_call(['git', '-C', '/repo', 'checkout', '--', '.'])
        else:
            shutil.rmtree(SCRATCH_ROOT, ignore_errors=True)
            os.makedirs(SCRATCH_ROOT)
            subprocess.check_call(['rsync', '-a', '--exclude', 'target', '--exclude', '.git', '/repo/', SCRATCH + '/'])
            subprocess.check_call(['git', 'init', '-q'], cwd=SCRATCH)
            subprocess.check_call(['git', 'apply', patch], cwd=SCRATCH)
            env['VERIF_REPO'] = SCRATCH
            try:
                fired = checks(env)
            finally:
                shutil.rmtree(SCRATCH_ROOT, ignore_errors=True)
        meta['checks_fired'] = fired
        meta['caught'] = bool(fired)
        meta['caught_by_own_property'] = meta['property'] in fired
        with open(os.path.join(d, 'meta.json'), 'w') as f:
            json.dump(meta, f, indent=1)
        print(nm, 'CAUGHT' if fired else 'MISSED', {k: [x.split(':', 2)[2][:60] for x in v][:2] for k, v in fired.items()}, flush=True)
        return (nm, meta['property'], sorted(fired))


def main():
    args = [a for a in sys.argv[1:] if not a.startswith('--')]
    via_repo = '--via-repo' in sys.argv
    jobs = 1
    for a in sys.argv[1:]:
        if a.startswith('--jobs='):
            jobs = int(a.split('=')[1])
    names = args or sorted(os.listdir(SEEDED))
    if via_repo or jobs == 1:
        rows = [r for r in (one(nm, via_repo) for nm in names) if r]
    else:
        from multiprocessing import Pool
        with Pool(jobs) as pool:
            rows = [r for r in pool.map(one, names) if r]
    print('%d seeds, %d caught, %d by their own property' % (len(rows), sum(1 for r in rows if r[2]), sum(1 for r in rows if r[1] in r[2])))


if __name__ == '__main__':
    main()
