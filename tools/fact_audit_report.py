#!/usr/bin/env python3
"""List the survivors of tools/fact_audit.py with their source line:  tools/fact_audit_report.py [file] [--from N]"""
import json
import sys
import os
HERE = os.path.dirname(os.path.dirname(os.path.abspath(__file__)))
f = sys.argv[1] if len(sys.argv) > 1 and not sys.argv[1].startswith('--') else os.path.join(HERE, 'notes', 'fact_audit.jsonl')
rows = [json.loads(l) for l in open(f)]
surv = [r for r in rows if not r['reported']]
surv.sort(key=lambda r: (r['span'] or '', r['kind']))
cache = {}


def src(span):
    if not span:
        return ''
    fn, l = span.rsplit(':', 1)
    if fn not in cache:
        cache[fn] = open(fn).read().split('\n')
    return cache[fn][int(l) - 1].strip()[:110]


for r in surv:
    print('%-13s %-34s %s->%s | %s' % (r['kind'], (r['span'] or '').replace('/repo/cachelito-core/src/', ''), r['old'], r['new'], src(r['span'])))
print(len(surv), 'survivors of', len(rows))
