//! Minimal positives for rules whose expected number of findings on a healthy tree is zero.
//! Every check run analyses this crate *separately* from the real program and fails closed if a
//! positive below is not flagged (a rule that silently matches nothing would pass for ever).
#![allow(warnings)]
use cachelito_core::CacheEntry;
use dashmap::DashMap;
use once_cell::sync::Lazy;
use parking_lot::{Mutex, RwLock};
use std::cell::RefCell;
use std::collections::{HashMap, VecDeque};

pub static MAP: Lazy<RwLock<HashMap<String, CacheEntry<i32>>>> = Lazy::new(|| RwLock::new(HashMap::new()));
pub static ORDER: Lazy<Mutex<VecDeque<String>>> = Lazy::new(|| Mutex::new(VecDeque::new()));
pub static DM: Lazy<DashMap<String, (i32, u64, u64)>> = Lazy::new(|| DashMap::new());

/// L1 positive: store -> queue here ...
pub fn inversion_a(k: &str) {
    let mut m = MAP.write();
    let mut o = ORDER.lock();
    m.remove(k);
    o.retain(|x| x != k);
}

/// ... queue -> store there.
pub fn inversion_b(k: &str) {
    let mut o = ORDER.lock();
    let mut m = MAP.write();
    o.retain(|x| x != k);
    m.remove(k);
}

/// L1 self edge: same class re-acquired while held.
pub fn self_deadlock() {
    let o = ORDER.lock();
    let n = helper_len();
    drop(o);
    let _ = n;
}
fn helper_len() -> usize {
    ORDER.lock().len()
}

thread_local! {
    static TL_MAP: RefCell<HashMap<String, CacheEntry<i32>>> = RefCell::new(HashMap::new());
    static TL_ORDER: RefCell<VecDeque<String>> = RefCell::new(VecDeque::new());
}

/// R1 positive: the queue is mutably borrowed, and a helper two calls away borrows it again.
pub fn reborrow(k: &str) {
    TL_ORDER.with(|o| {
        let mut order = o.borrow_mut();
        order.push_back(k.to_string());
        reborrow_helper(k);
    });
}
fn reborrow_helper(k: &str) {
    TL_ORDER.with(|o| {
        o.borrow_mut().retain(|x| x != k);
    });
}

/// R1 negative twin: the borrow ends before the helper runs.
pub fn no_reborrow(k: &str) {
    TL_ORDER.with(|o| {
        {
            let mut order = o.borrow_mut();
            order.push_back(k.to_string());
        }
        reborrow_helper2(k);
    });
}
fn reborrow_helper2(k: &str) {
    TL_ORDER.with(|o| {
        o.borrow_mut().retain(|x| x != k);
    });
}

/// L2 positive: a DashMap entry reference is alive while the queue is locked.
pub fn dm_ref_then_lock(k: &str) {
    if let Some(mut e) = DM.get_mut(k) {
        e.2 += 1;
        let mut o = ORDER.lock();
        o.push_back(k.to_string());
    }
}

/// L2 negative twin: reference dropped first.
pub fn dm_drop_then_lock(k: &str) {
    if let Some(mut e) = DM.get_mut(k) {
        e.2 += 1;
        drop(e);
        let mut o = ORDER.lock();
        o.push_back(k.to_string());
    }
}

/// C20-L1 positive: a guard is alive across an await.
pub async fn guard_across_await(k: String) -> usize {
    let o = ORDER.lock();
    std::future::ready(()).await;
    o.len() + k.len()
}

/// C20-L1 negative twin.
pub async fn guard_before_await(k: String) -> usize {
    let n = { ORDER.lock().len() };
    std::future::ready(()).await;
    n + k.len()
}

/// C18-M1 positive: the store removal precedes its queue removal, in two critical sections.
pub fn split_removal(k: &str) {
    MAP.write().remove(k);
    let mut o = ORDER.lock();
    o.retain(|x| x != k);
}

/// C18-M1 negative twin: both halves under the queue lock.
pub fn atomic_removal(k: &str) {
    let mut o = ORDER.lock();
    MAP.write().remove(k);
    o.retain(|x| x != k);
}

/// C18-M1 positive (clear form).
pub fn split_clear() {
    MAP.write().clear();
    ORDER.lock().clear();
}

// ---- C*-D1: an update of the cache written inside debug_assert! (compiled out in release builds) ----
pub fn debug_only_effect(k: &str) {
    let mut o = ORDER.lock();
    debug_assert!(o.pop_front().is_some(), "queue was empty for {}", k);
}

// negative twin: the update is made unconditionally, only its result is asserted
pub fn effect_then_debug_assert(k: &str) {
    let mut o = ORDER.lock();
    let popped = o.pop_front();
    debug_assert!(popped.is_some(), "queue was empty for {}", k);
}
