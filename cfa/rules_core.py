def check_orphan_tolerance(run, ctx, rule):
    pass
