"""Rules over cachelito-core (engines E, K, P, S): lookup scenario tables, store-path rules,
comparison normal forms, selectors, sibling/shape agreement."""
from collections import defaultdict
from .facts import callee_name
from .effects import classify, S_REMOVALS, Q_REMOVALS, Q_INSERTS, Effects
from .spec import Spec, SpecEffects, Weigher, all_assumptions, describe, config_field_of, upvar_index, segment_totals
from .expr import Expr, walk, calls_in, strip_casts, field_path, show
from .roles import Roles, normal_form, FLIP, SYM, EST
from .types import parse, strip_refs
from . import names as N

FLAVOURS = [('global', N.GLOBAL), ('thread', N.THREAD), ('async', N.ASYNC)]
POL = N.POLICY_VARIANTS
INC_FN = N.ENTRY + '::increment_frequency'
IS_EXPIRED = N.ENTRY + '::is_expired'

VOCAB = ['hit', 'miss', 'S+', 'S-', 'Srepl', 'S0', 'Qrem', 'Q>', 'Q<', 'inc', 'cmp:overflow', 'cmp:oversize', 'cmp:fit', 'Q-front', 'Q-back']
IX = {k: i for i, k in enumerate(VOCAB)}


def classify_ext(t):
    k = classify(t)
    if k in Q_REMOVALS:
        return [k, 'Qrem']
    if k == 'S-*':
        return ['S-']
    if k:
        return k
    if callee_name(t) == INC_FN:
        return 'inc'
    return None


def _inc_stmts(body, b):
    """statement-level frequency increment of an async entry: (*e).2 = saturating_add((*e).2, 1)"""
    out = []
    for st in body.blocks[b]['stmts']:
        if st['k'] != 'assign':
            continue
        proj = [e for e in (st['dst'].get('proj') or []) if e != 'deref']
        if proj and isinstance(proj[-1], dict) and proj[-1].get('name') == '2' and proj[-1].get('on') == 'tuple':
            if not hasattr(body, '_ex_cache'):
                body._ex_cache = Expr(body)  # cached on the Body object itself: an altered copy of the body (planted defects) has its own
            e = body._ex_cache.rvalue(st['rv'])
            e = strip_casts(e)
            if e[0] == 'call' and e[1].endswith('::saturating_add') and len(e[2]) == 2:
                root, names = field_path(e[2][0])
                if names and names[-1] == '2' and e[2][1][0] == 'const' and e[2][1][1] == 1:
                    out.append('inc')
                    continue
            if e[0] == 'field' and e[1][0] == 'bin' and e[1][1] == 'AddWithOverflow':
                a, c = e[1][2], e[1][3]
                root, names = field_path(a)
                if names and names[-1] == '2' and c[0] == 'const' and c[1] == 1:
                    out.append('inc')
                    continue
            out.append('freq-write')
    return out


class Core:
    """shared lookups on the core crate"""

    def __init__(self, ctx):
        self.ctx = ctx
        self.prog = ctx.prog
        self.core = ctx.core
        self.roles = Roles(self.prog)
        self._cmp = {}

    def method(self, adt, name):
        return self.ctx.core_fn('%s::%s' % (adt, name))

    def scope(self, body):
        return [body] + self.core.descendants(body)

    def eviction_fn(self, adt):
        """the routine that enforces the entry limit for this flavour: the function of the cache type (or a closure in it)
        that compares the queue/store length with the limit - found by that comparison, not by its name"""
        if not hasattr(self, '_evfn'):
            self._evfn = {}
        if adt in self._evfn:
            return self._evfn[adt]
        found = []
        for b in self.core.bodies.values():
            if b.kind not in ('fn', 'assoc_fn') or not (b.impl_self or '').startswith(adt):
                continue
            for (xid, bi), lst in self.cmp_sites(b).items():
                if any(x[0] == 'cmp:overflow' for x in lst):
                    found.append(b)
                    break
        self._evfn[adt] = found[0] if len(found) == 1 else None
        return self._evfn[adt]

    def truth_value(self, root, site, kind):
        """raw value (0/1) of the comparison statement `site` = (body id, block, stmt) for which the semantic condition
        `kind` ('overflow' | 'oversize' | 'fits' | 'expired') holds - found by exploring both values, so that a test
        written in negated form (`if !(a > b)`) is read correctly.  None if neither or both values show the behaviour."""
        key = (root.id, site, kind)
        if not hasattr(self, '_truth'):
            self._truth = {}
        if key in self._truth:
            return self._truth[key]
        xid, bi, si = site
        body = self.prog.bodies[xid]
        scope = self.scope(root)
        member = [(x.id, b) for x in scope for b, t in x.calls() if classify(t) == 'S?']
        selected = [(x.id, b) for x in scope for b, t in x.calls() if classify(t) in ('Q-front', 'Q-at', 'Q-back')]
        found = [(x.id, b) for x in scope for b, t in x.calls() if classify(t) in ('Sget', 'Sgetmut')]
        a = {'policy': 0, 'limit': 1 if kind == 'overflow' else 0, 'max_memory': 1 if kind in ('oversize', 'fits') else 0, 'ttl': 1 if kind == 'expired' else 0}
        shows = {}
        for v in (0, 1):
            orc = {(xid, bi, si): v}
            for s_ in member + selected:
                orc[s_] = 1
            if kind == 'expired':
                for s_ in found:
                    orc[s_] = 1
            w = self.weigher(a, orc, root=root)
            if kind == 'fits':
                sp = w.spec(body)
                seg = segment_totals(sp, {bi}, {bi})
                vecs = [vv for vs in seg.values() for vv in vs]
                shows[v] = bool(vecs) and all(_vec(x)['S-'] == 0 and _vec(x)['S0'] == 0 for x in vecs)
            else:
                sp = w.spec(root)
                outs = []
                for n_, vs in sp.path_totals().items():
                    for vv in vs:
                        outs.append((sp.return_value(n_), _vec(vv)))
                if kind == 'overflow':
                    shows[v] = any(d['S-'] >= 1 for (_, d) in outs)
                elif kind == 'oversize':
                    shows[v] = bool(outs) and all(d['cmp:fit'] == 0 for (_, d) in outs)
                else:
                    shows[v] = bool(outs) and all(r == 0 for (r, _) in outs)
        if shows[1] and not shows[0]:
            r = 1
        elif shows[0] and not shows[1]:
            r = 0
        else:
            r = None
        self._truth[key] = r
        return r

    def selectors(self):
        """[(flavour group, policy, body)] of the victim selectors, discovered as the Option-returning scanning functions
        the eviction routine reaches under LFU / ARC / TLRU"""
        if hasattr(self, '_selectors'):
            return self._selectors
        out = {}
        for flav, adt in FLAVOURS:
            ev = self.eviction_fn(adt)
            if ev is None:
                continue
            for pol in ('LFU', 'ARC', 'TLRU'):
                a = {'policy': POL.index(pol), 'limit': 1, 'max_memory': 0, 'ttl': 1}
                visited = set()
                todo = [ev]
                while todo:
                    x = todo.pop()
                    if x.id in visited:
                        continue
                    visited.add(x.id)
                    sp = Spec(self.prog, x, a)
                    for b in sp.reachable_blocks():
                        t = x.term(b)
                        if t['k'] != 'call':
                            continue
                        for cb in self.prog.closures_passed(t):
                            todo.append(cb)  # closures run from a block that is reachable under this policy
                        for cb in self.prog.lookup(t):
                            if cb.crate is self.core and cb.kind in ('fn', 'assoc_fn') and cb.local_ty(0).startswith(N.OPTION + '<') \
                                    and any(callee_name(t2) == NEXT for _, t2 in cb.calls()):
                                out.setdefault((cb.id, pol), set()).add(flav)
        res = []
        for (cid, pol), flavs in sorted(out.items()):
            grp = 'async' if flavs == {'async'} else 'sync' if 'async' not in flavs else 'shared'
            res.append((grp, pol, self.prog.bodies[cid]))
        self._selectors = res
        return res

    def cmp_sites(self, body):
        """{(body id, block): [kinds]} statement-level comparison roles in body and nested closures"""
        if body.id in self._cmp:
            return self._cmp[body.id]
        out = defaultdict(list)
        for x in self.scope(body):
            for (bi, si, op, ra, rb, ea, eb, dl) in self.roles.comparisons(x):
                rs = {ra, rb}
                kind = None
                if 'LIMIT' in rs and (rs & {'LEN_QUEUE', 'LEN_STORE'}):
                    kind = 'cmp:overflow'
                elif 'MAX_MEM' in rs and 'NEW_SIZE' in rs:
                    kind = 'cmp:oversize'
                elif 'MAX_MEM' in rs and any(r and r.startswith('MEM_SUM') for r in rs):
                    kind = 'cmp:fit'
                elif 'TTL' in rs and 'AGE_SECS' in rs:
                    kind = 'cmp:expiry'
                if kind:
                    out[(x.id, bi)].append((kind, si, op, ra, rb))
        self._cmp[body.id] = out
        return out

    def extra_kinds(self):
        cache = {}

        def extra(body, b):
            # comparison kinds are computed per root function lazily (closures share their root's table)
            root = body
            while root.kind in ('closure', 'coroutine') and self.prog.bodies.get(root.parent) is not None:
                root = self.prog.bodies[root.parent]
            if root.id not in cache:
                cache[root.id] = self.cmp_sites(root) if root.crate is self.core else {}
            ks = [k[0] for k in cache[root.id].get((body.id, b), [])]
            ks += _inc_stmts(body, b)
            return ks
        return extra

    def weigher(self, fields, oracles=None, root=None, precise=False):
        """root: the operation whose own key (first `&str` parameter) distinguishes Srepl from S-"""
        own = None
        if root is not None and root.kind in ('fn', 'assoc_fn'):
            for i in range(1, root.arg_count + 1):
                if root.local_ty(i) == '&str':
                    own = (root.id, i)
                    break
        w = Weigher(self.prog, fields, VOCAB, oracles=oracles, classify=classify_ext, extra=self.extra_kinds(), own_key=own)
        # precise: directly called helpers contribute one outcome (return value, effect totals) per path class instead of a
        # may-summary; only for rules whose oracles also fix the tests inside those helpers
        w.precise_calls = precise
        return w

    # ---- oracle sites of a lookup ---------------------------------------------------------------
    def lookup_sites(self, get):
        found, expiry, member = [], [], []
        for x in self.scope(get):
            for b, t in x.calls():
                k = classify(t)
                if k in ('Sget', 'Sgetmut'):
                    found.append((x.id, b))
                elif k == 'S?':
                    member.append((x.id, b))
                if callee_name(t) == IS_EXPIRED:
                    expiry.append((x.id, b))
        for (xid, bi), lst in self.cmp_sites(get).items():
            for (kind, si, op, ra, rb) in lst:
                if kind == 'cmp:expiry':
                    # oracle on the comparison statement; normalise to "AGE >= TTL is true"
                    expiry.append((xid, bi, si, op, ra, rb))
        return found, expiry, member


def _vec(v):
    return {k: v[i] for k, i in IX.items()}


NEGSYM = {'<': '>=', '<=': '>', '>': '<=', '>=': '<'}


def sem_form(op, ra, rb, order, truth):
    """normal form of the *condition* a comparison stands for: as written when the condition holds for the value true,
    negated when it holds for false (a test used through `!`)"""
    left, sym, right = normal_form(op, ra, rb, order)
    if truth == 0:
        sym = NEGSYM[sym]
    return left, sym, right


# ------------------------------------------------------------------------------------------------
# lookup scenario table (C06-E1/P1, C15-E1/E2, C07-E1, C08-E1, C03 for lookups, C01-P1 return shape)
# ------------------------------------------------------------------------------------------------
def lookup_scenarios(ctx, member_free=False):
    """rows: dict(flavour, fields, scenario, outcomes=set((ret, vec)), nodes, sites).
    member_free: membership re-checks (`contains_key`) are left open, so paths on which a concurrent caller has
    already removed the key are explored too (used where *every* path counts, e.g. statistics)"""
    attr = '_lookup_rows_free' if member_free else '_lookup_rows'
    if hasattr(ctx, attr):
        return getattr(ctx, attr)
    C = Core(ctx)
    rows = []
    anchors = {}
    for flav, adt in FLAVOURS:
        get = C.method(adt, 'get')
        if get is None:
            anchors[flav] = None
            continue
        found, expiry, member = C.lookup_sites(get)
        anchors[flav] = {'found': len(found), 'expiry': len(expiry), 'member': len(member), 'fn': get.name}
        for a in all_assumptions():
            scen = [('absent', 0, None), ('fresh', 1, 0)]
            if a['ttl'] == 1:
                scen.append(('expired', 1, 1))
            for (sname, f, e) in scen:
                orc = {}
                for s in found:
                    orc[s] = f
                if not member_free:
                    for s in member:
                        orc[s] = 1
                if e is not None:
                    for s in expiry:
                        if len(s) == 2:
                            orc[s] = e
                        else:
                            (xid, bi, si, op, ra, rb) = s
                            # value of the comparison such that AGE >= TTL has truth value e
                            tv = C.truth_value(get, (xid, bi, si), 'expired')
                            orc[(xid, bi, si)] = e if tv != 0 else 1 - e
                w = C.weigher(a, orc, root=get)
                sp = w.spec(get)
                tot = sp.path_totals()
                outs = set()
                for n, vs in tot.items():
                    rv = sp.return_value(n)
                    for v in vs:
                        outs.add((rv, v))
                rows.append({'flavour': flav, 'fields': a, 'scenario': sname, 'outcomes': outs, 'nodes': len(sp.nodes),
                             'truncated': sp.truncated, 'fn': get})
    setattr(ctx, attr, (rows, anchors))
    return getattr(ctx, attr)


def _bounds(a):
    return 'limit=%s/mem=%s' % ({0: 'None', 1: 'Some'}[a['limit']], {0: 'None', 1: 'Some'}[a['max_memory']])


def _each(rows, scenario=None):
    for r in rows:
        if scenario is None or r['scenario'] == scenario:
            yield r


def check_lookup_stats(run, ctx):
    """C15-E1/E2: every lookup path records exactly one of hit/miss; hit iff a value is returned"""
    rows, anchors = lookup_scenarios(ctx, member_free=True)
    n = 0
    for r in rows:
        for (ret, v) in r['outcomes']:
            n += 1
            d = _vec(v)
            key = '%s/%s/%s' % (r['flavour'], POL[r['fields']['policy']], r['scenario'])
            where = '%s under %s, scenario %s' % (r['fn'].name, describe(r['fields']), r['scenario'])
            if d['hit'] + d['miss'] != 1:
                run.bad('C15-E1', key + '/count', 'a lookup path records %d hit(s) and %d miss(es) (must be exactly one record): %s' % (d['hit'], d['miss'], where),
                        site=r['fn'].name, oracle='exactly one record_hit/record_miss per lookup path')
            elif (d['hit'] == 1) != (ret == 1):
                run.bad('C15-E2', key + '/polarity', 'a lookup path that returns %s records a %s: %s' % ('a value' if ret == 1 else 'nothing' if ret == 0 else 'an unknown result',
                        'hit' if d['hit'] else 'miss', where), site=r['fn'].name, oracle='hit recorded exactly when an unexpired entry is returned')
            else:
                run.ok('C15-E1', '%s/%s' % (key, describe(r['fields'])), '(ret=%s, hit=%d, miss=%d)' % (ret, d['hit'], d['miss']))
    return n, anchors


def check_lookup_expiry(run, ctx):
    """C06-E1 (no serving path bypasses the expiry test; fresh entries are served) and C06-P1 (expired => purge store+queue, nothing returned)"""
    rows, anchors = lookup_scenarios(ctx)
    n = 0
    for r in rows:
        key = '%s/%s' % (r['flavour'], POL[r['fields']['policy']])
        where = '%s under %s' % (r['fn'].name, describe(r['fields']))
        if r['scenario'] == 'expired':
            for (ret, v) in r['outcomes']:
                n += 1
                d = _vec(v)
                if ret != 0:
                    run.bad('C06-E1', key + '/expired-served', 'with the expiry test true a lookup path still returns a value (%s)' % where, site=r['fn'].name,
                            oracle='every value-returning path is on the not-expired edge of the expiry test')
                elif d['Srepl'] < 1 or d['Qrem'] < 1:
                    run.bad('C06-P1', key + '/purge', 'the expired branch leaves the requested key in the %s (%s): it keeps occupying capacity' %
                            ('store' if d['Srepl'] < 1 else 'order queue', where), site=r['fn'].name, oracle='expired => store removal and queue removal of the requested key on every path')
                elif d['Q>'] or d['inc'] or d['S+'] or d['S-']:
                    run.bad('C06-P1', key + '/purge-extra', 'the expired branch also touches the queue/frequency (%s)' % where, site=r['fn'].name)
                else:
                    run.ok('C06-P1', '%s/%s' % (key, describe(r['fields'])), 'expired: returns None, own key purged (store %d, queue %d)' % (d['Srepl'], d['Qrem']))
        elif r['scenario'] == 'fresh':
            for (ret, v) in r['outcomes']:
                n += 1
                d = _vec(v)
                if ret != 1:
                    run.bad('C06-E1', key + '/fresh-not-served', 'an entry that is present and not expired is not returned on some path (%s)' % where, site=r['fn'].name,
                            oracle='found and not expired => value returned')
                elif d['S-'] or d['S0'] or d['Srepl']:
                    run.bad('C06-E1', key + '/fresh-removed', 'a hit removes store entries (%s)' % where, site=r['fn'].name)
                elif d['S+']:
                    run.bad('C06-S1', key + '/hit-restores', 'a hit stores the entry again (%s): that gives it a new birth time, so an entry that keeps being read never expires' % where,
                            site=r['fn'].name, oracle='birth time is written only when a computed value is stored')
                else:
                    run.ok('C06-E1', '%s/%s/fresh' % (key, describe(r['fields'])), 'fresh: value returned, nothing removed')
        else:
            for (ret, v) in r['outcomes']:
                n += 1
                d = _vec(v)
                if ret != 0 or d['S-'] or d['S0'] or d['Srepl'] or d['Qrem'] or d['Q>'] or d['S+']:
                    run.bad('C06-E1', key + '/absent', 'a lookup of an absent key returns a value or modifies store/queue (%s): %s' % (where, d), site=r['fn'].name)
                else:
                    run.ok('C06-E1', '%s/%s/absent' % (key, describe(r['fields'])), 'absent: None, no effect')
    return n, anchors


def check_hit_effects(run, ctx, which):
    """C07-E1 (which='C07') LRU touch / FIFO no reorder; C08-E1 (which='C08') LFU/ARC/TLRU count and touch"""
    rows, anchors = lookup_scenarios(ctx)
    n = 0
    for r in _each(rows, 'fresh'):
        a = r['fields']
        p = POL[a['policy']]
        bounded = a['limit'] == 1 or a['max_memory'] == 1
        key = '%s/%s/%s' % (r['flavour'], p, _bounds(a))
        where = '%s under %s' % (r['fn'].name, describe(a))
        for (ret, v) in r['outcomes']:
            d = _vec(v)
            if which == 'C07':
                if p == 'LRU':
                    n += 1
                    if not bounded:
                        run.masked('C07-E1', key, 'no bound configured: recency never selects a victim')
                    elif d['Q>'] < 1 or d['Qrem'] < 1:
                        run.bad('C07-E1', key + '/touch-missing', 'LRU hit does not move the key to the most-recent end on some path (%s): eviction then follows insertion order' % where,
                                site=r['fn'].name, oracle='LRU with a bound: every hit path re-queues the key (remove + push at the store end)')
                    else:
                        run.ok('C07-E1', key + '/ttl=%s' % a['ttl'], 'touch on every hit path')
                elif p == 'FIFO':
                    n += 1
                    if d['Q>'] or d['Qrem'] or d['Q<']:
                        run.bad('C07-E1', key + '/fifo-reorders', 'a FIFO hit changes the order queue (%s): the oldest store is no longer the victim' % where,
                                site=r['fn'].name, oracle='FIFO: no queue effect on a hit')
                    else:
                        run.ok('C07-E1', key + '/ttl=%s' % a['ttl'], 'no queue effect on a FIFO hit')
            else:
                if p in ('LFU', 'ARC', 'TLRU'):
                    n += 1
                    if not bounded:
                        run.masked('C08-E1', key, 'no bound configured: the counters never select a victim')
                        continue
                    if d['inc'] < 1:
                        run.bad('C08-E1', key + '/count-missing', '%s hit does not increment the entry\'s hit counter on some path (%s)' % (p, where), site=r['fn'].name,
                                oracle='LFU/ARC/TLRU with a bound: every hit path increments the counter of the requested entry')
                    elif d['inc'] > 1:
                        run.bad('C08-E1', key + '/count-twice', '%s hit increments the hit counter more than once on some path (%s)' % (p, where), site=r['fn'].name)
                    elif p in ('ARC', 'TLRU') and (d['Q>'] < 1 or d['Qrem'] < 1):
                        run.bad('C08-E1', key + '/touch-missing', '%s hit does not move the key to the most-recent end on some path (%s): recency rank is then insertion order' % (p, where),
                                site=r['fn'].name, oracle='ARC/TLRU with a bound: every hit path re-queues the key')
                    else:
                        run.ok('C08-E1', key + '/ttl=%s' % a['ttl'], 'counter incremented once%s' % (', key re-queued' if p != 'LFU' else ''))
    return n, anchors


def check_lookup_stats_free(run, ctx):
    """C15-E1/E2 without any oracle: every path the lookup can take, whatever each individual test (store lookup,
    expiry, membership re-check, a second look under another lock) answers, records exactly one of hit/miss, and a hit
    exactly when a value is returned.  Catches accounting mistakes on paths that need two tests to disagree."""
    C = Core(ctx)
    n = 0
    for flav, adt in FLAVOURS:
        get = C.method(adt, 'get')
        if get is None:
            continue
        for p_ in range(6):
            for ttl in (0, 1):
                for lim in (0, 1):
                    a = {'policy': p_, 'limit': lim, 'max_memory': 0, 'ttl': ttl}
                    w = C.weigher(a, {}, root=get)
                    sp = w.spec(get)
                    for n_, vs in sp.path_totals().items():
                        ret = sp.return_value(n_)
                        for v in vs:
                            d = _vec(v)
                            n += 1
                            key = '%s/%s/free' % (flav, POL[p_])
                            if d['hit'] + d['miss'] != 1:
                                run.bad('C15-E1', key + '/count', 'some lookup path of %s records %d hit(s) and %d miss(es) (%s): every lookup must be counted exactly once, whatever '
                                        'the individual tests on the way answer' % (get.name, d['hit'], d['miss'], describe(a)), site=get.name,
                                        oracle='exactly one record_hit/record_miss per lookup path')
                            elif ret is not None and (d['hit'] == 1) != (ret == 1):
                                run.bad('C15-E2', key + '/polarity', 'a lookup path of %s that returns %s records a %s (%s)' % (get.name, 'a value' if ret == 1 else 'nothing',
                                        'hit' if d['hit'] else 'miss', describe(a)), site=get.name, oracle='hit recorded exactly when a value is returned')
                            else:
                                run.ok('C15-E1', '%s/%s' % (key, describe(a)), '(ret=%s, hit=%d, miss=%d)' % (ret, d['hit'], d['miss']))
    return n


def check_lookup_purge_pairing_free(run, ctx, rule='C18-M6'):
    """without any oracle (each test on the way may answer either way, so also when a first look says "expired" and a second
    look under another lock says "fresh"): a lookup path that takes the requested key out of the order queue without
    re-appending it also takes the entry out of the store.  An entry that stays stored without a queue slot is invisible to
    the limit test and can never be evicted.  (The opposite - entry gone, slot left - is the tolerated orphan.)"""
    C = Core(ctx)
    n = 0
    for flav, adt in FLAVOURS:
        get = C.method(adt, 'get')
        if get is None:
            continue
        for p_ in range(6):
            for lim in (0, 1):
                a = {'policy': p_, 'limit': lim, 'max_memory': 0, 'ttl': 1}
                w = C.weigher(a, {}, root=get)
                sp = w.spec(get)
                bad = None
                for n_, vs in sp.path_totals().items():
                    for v in vs:
                        d = _vec(v)
                        if d['Qrem'] >= 1 and d['Q>'] + d['Q<'] == 0 and d['Srepl'] + d['S-'] == 0:
                            bad = d
                n += 1
                key = '%s/%s/limit=%s' % (flav, POL[p_], 'Some' if lim else 'None')
                if bad is not None:
                    run.bad(rule, '%s/%s/queue-slot-dropped-entry-kept' % (flav, POL[p_]), 'some path of %s removes the key from the order queue (without re-appending it) but leaves its entry in '
                            'the store (%s): the entry is no longer counted by the limit test and can never be evicted' % (get.name, describe(a)), site=get.name,
                            oracle='queue slot removed without re-queue => store entry removed')
                else:
                    run.ok(rule, key, 'no path drops the queue slot of a key whose entry stays stored')
    return n


def check_lookup_removes_nothing_unbounded(run, ctx):
    """C03-E1 (lookup part): with no limit / memory bound / ttl no lookup path removes anything"""
    rows, anchors = lookup_scenarios(ctx)
    n = 0
    for r in rows:
        a = r['fields']
        if a['limit'] or a['max_memory'] or a['ttl']:
            continue
        for (ret, v) in r['outcomes']:
            n += 1
            d = _vec(v)
            key = '%s/%s/get/%s' % (r['flavour'], POL[a['policy']], r['scenario'])
            if d['S-'] or d['S0'] or d['Srepl']:
                run.bad('C03-E1', key, 'a lookup removes store entries although no limit, memory bound or ttl is configured (%s)' % r['fn'].name, site=r['fn'].name,
                        oracle='unbounded configuration: no store removal reachable')
            else:
                run.ok('C03-E1', key, 'no store removal')
    return n


# ------------------------------------------------------------------------------------------------
# store paths (insert / insert_with_memory)
# ------------------------------------------------------------------------------------------------
def store_rows(ctx):
    if hasattr(ctx, '_store_rows'):
        return ctx._store_rows
    C = Core(ctx)
    rows = []
    anchors = {}
    for flav, adt in FLAVOURS:
        for m in ('insert', 'insert_with_memory'):
            fn = C.method(adt, m)
            anchors['%s/%s' % (flav, m)] = fn.name if fn else None
            if fn is None:
                continue
            member = []
            for x in C.scope(fn):
                for b, t in x.calls():
                    pass
            for a in all_assumptions():
                w = C.weigher(a, {}, root=fn)
                sp = w.spec(fn)
                tot = sp.path_totals()
                outs = set()
                for n_, vs in tot.items():
                    for v in vs:
                        outs.add(v)
                rows.append({'flavour': flav, 'method': m, 'fields': a, 'outcomes': outs, 'fn': fn, 'truncated': sp.truncated, 'nodes': len(sp.nodes)})
    ctx._store_rows = (rows, anchors)
    return ctx._store_rows


def check_store_unbounded(run, ctx):
    """C03-E1 (store part): no removal reachable from a store when nothing bounds the cache"""
    rows, anchors = store_rows(ctx)
    n = 0
    for r in rows:
        a = r['fields']
        if a['limit'] or a['max_memory'] or a['ttl']:
            continue
        key = '%s/%s/%s' % (r['flavour'], POL[a['policy']], r['method'])
        bad = [v for v in r['outcomes'] if _vec(v)['S-'] or _vec(v)['S0'] or (_vec(v)['Srepl'] and not _vec(v)['S+'])]
        n += 1
        if bad:
            run.bad('C03-E1', key, '%s removes store entries on some path although no limit, memory bound or ttl is configured' % r['fn'].name, site=r['fn'].name,
                    oracle='unbounded configuration: no store removal reachable')
        else:
            run.ok('C03-E1', key, 'no store removal on any of %d path classes' % len(r['outcomes']))
    return n, anchors


def check_store_overwrites(run, ctx, rule='C01-P2'):
    """C01-P2 / C11-P1: every completed store path passes a store insertion of the key (except the oversize path)"""
    rows, anchors = store_rows(ctx)
    n = 0
    for r in rows:
        a = r['fields']
        key = '%s/%s' % (r['flavour'], r['method'])
        for v in r['outcomes']:
            d = _vec(v)
            n += 1
            if d['S+'] < 1 and d['cmp:oversize'] < 1:
                run.bad(rule, key + '/no-store', '%s has a path that returns without storing the value (the previous value for the key stays): the store does not overwrite'
                        % r['fn'].name, site=r['fn'].name, oracle='every non-oversize store path passes an insertion of (key, value)')
            else:
                run.ok(rule, '%s/%s' % (key, describe(a)), 'S+ on the path' if d['S+'] else 'oversize path')
    return n, anchors


def check_overflow_test_on_every_path(run, ctx):
    """C04-E1: with a limit, the overflow test lies on every store path (except the oversize return)"""
    rows, anchors = store_rows(ctx)
    n = 0
    for r in rows:
        a = r['fields']
        if not a['limit']:
            continue
        key = '%s/%s' % (r['flavour'], r['method'])
        for v in r['outcomes']:
            d = _vec(v)
            n += 1
            if d['S+'] >= 1 and d['cmp:overflow'] < 1 and not (d['cmp:oversize'] >= 1 and d['Srepl'] >= 1):
                run.bad('C04-E1', key + '/limit-test-skipped', '%s stores an entry on a path that never compares the size with the limit (%s)' % (r['fn'].name, describe(a)),
                        site=r['fn'].name, oracle='limit=Some: overflow test on every storing path')
            else:
                run.ok('C04-E1', '%s/%s' % (key, describe(a)), 'overflow test on the path')
    return n, anchors


def check_replacement_before_overflow_test(run, ctx):
    """C04-E2: where a store first drops the old entry of the same key, it does so before the size is compared with the
    limit - otherwise re-storing a cached key into a full cache evicts a victim although nothing overflows"""
    C = Core(ctx)
    n = 0
    for flav, adt in FLAVOURS:
        for m in ('insert', 'insert_with_memory'):
            fn = C.method(adt, m)
            if fn is None:
                continue
            for p in range(6):
                a = {'policy': p, 'limit': 1, 'max_memory': 1 if m == 'insert_with_memory' else 0, 'ttl': 0}
                w = C.weigher(a, {}, root=fn)
                sp = w.spec(fn)
                over = [nd for nd in sp.nodes if 'cmp:overflow' in w.kinds(fn, nd[0])]
                n += 1
                key = '%s/%s/%s' % (flav, m, POL[p])
                if not over:
                    continue
                after = sp.forward_from(over)
                late = [nd for nd in after if nd not in over and 'Srepl' in w.kinds(fn, nd[0]) and 'cmp:oversize' not in w.kinds(fn, nd[0])]
                # the sync oversize branch takes the just-stored key out again: that is not a replacement
                late = [nd for nd in late if not _dominated_by_oversize(C, fn, sp, w, nd)]
                if late:
                    run.bad('C04-E2', '%s/%s/replaces-after-limit-test' % (flav, m), '%s compares the size with the limit while the old entry of the key being stored still counts, and drops '
                            'that entry afterwards (%s): re-storing a cached key into a full cache evicts another entry although nothing overflows' % (fn.name, fn.loc(late[0][0])),
                            site='%s (%s)' % (fn.name, fn.loc(late[0][0])), oracle='a store that does not overflow removes nothing')
                else:
                    run.ok('C04-E2', key, 'no own-key replacement after the overflow test')
    return n


def check_replacement_before_fit_test(run, ctx):
    """C05-E2: where a store drops the old entry of the same key, it does so before the total is compared with max_memory
    (otherwise the old value is counted and other entries are evicted although the total after replacement fits)"""
    C = Core(ctx)
    n = 0
    for flav, adt in FLAVOURS:
        fn = C.method(adt, 'insert_with_memory')
        if fn is None:
            continue
        for p in range(6):
            a = {'policy': p, 'limit': 0, 'max_memory': 1, 'ttl': 0}
            w = C.weigher(a, {}, root=fn)
            sp = w.spec(fn)
            fitn = [nd for nd in sp.nodes if 'cmp:fit' in w.kinds(fn, nd[0])]
            n += 1
            if not fitn:
                continue
            after = sp.forward_from(fitn)
            late = [nd for nd in after if nd not in fitn and 'Srepl' in w.kinds(fn, nd[0]) and not _dominated_by_oversize(C, fn, sp, w, nd)]
            if late:
                run.bad('C05-E2', '%s/insert_with_memory/replaces-after-fit-test' % flav, '%s sums the stored sizes while the old entry of the key being stored still counts and drops that '
                        'entry afterwards (%s): re-storing a cached key evicts other entries although the total after replacement fits' % (fn.name, fn.loc(late[0][0])),
                        site='%s (%s)' % (fn.name, fn.loc(late[0][0])), oracle='never evict while the total fits')
            else:
                run.ok('C05-E2', '%s/insert_with_memory/%s' % (flav, POL[p]), 'no own-key replacement after the fit test')
    return n


def check_oversize_drops_old_entry(run, ctx, rule='C01-P3'):
    """a value too large to cache must not leave the *previous* value of the same key in the cache (it was superseded):
    on the oversize path, with the key already stored, the key's entry is removed"""
    C = Core(ctx)
    n = 0
    for flav, adt in FLAVOURS:
        fn = C.method(adt, 'insert_with_memory')
        if fn is None:
            continue
        over = [(xid, bi) + x for (xid, bi), lst in C.cmp_sites(fn).items() for x in lst if x[0] == 'cmp:oversize']
        if len(over) != 1:
            continue
        (xid, bi, kind, si, op, ra, rb) = over[0]
        otv = C.truth_value(fn, (xid, bi, si), 'oversize')
        if otv is None:
            continue
        member = [(x.id, b) for x in C.scope(fn) for b, t in x.calls() if classify(t) == 'S?']
        for p in range(6):
            a = {'policy': p, 'limit': 0, 'max_memory': 1, 'ttl': 0}
            orc = {(xid, bi, si): otv}
            for s_ in member:
                orc[s_] = 1
            w = C.weigher(a, orc, root=fn)
            sp = w.spec(fn)
            n += 1
            bad = False
            for n_, vs in sp.path_totals().items():
                for v in vs:
                    if _vec(v)['Srepl'] < 1:
                        bad = True
            if bad:
                run.bad(rule, '%s/insert_with_memory/oversize-keeps-old-value' % flav, 'when a value is too large to cache, %s leaves the previous entry of the same key in place: the superseded '
                        'value keeps being served' % fn.name, site=fn.name, oracle='once the value for some arguments has been replaced the old value is never served again')
            else:
                run.ok(rule, '%s/insert_with_memory/%s/oversize' % (flav, POL[p]), 'oversize path removes the key\'s entry')
    return n


def check_store_value_identity(run, ctx, rule='C01-P2'):
    """what is stored under the key is the value parameter (through CacheEntry::new / the async tuple), and the key is the key parameter"""
    C = Core(ctx)
    se = SpecEffects(ctx.prog, {})
    n = 0
    for flav, adt in FLAVOURS:
        for m in ('insert', 'insert_with_memory'):
            fn = C.method(adt, m)
            if fn is None:
                continue
            own_key = None
            val_param = None
            for i in range(1, fn.arg_count + 1):
                if fn.local_ty(i) == '&str' and own_key is None:
                    own_key = (fn.id, i)
            val_param = (fn.id, fn.arg_count)
            for x in C.scope(fn):
                ex = Expr(x)
                for b, t in x.calls():
                    if classify(t) != 'S+':
                        continue
                    n += 1
                    kr = se.key_root(x, t['args'][1])
                    v = strip_casts(ex.operand(t['args'][2]))
                    # value: CacheEntry::new(value) / (value, now, 0), possibly held in a local or captured
                    src = None
                    if v[0] == 'call' and v[1] == N.ENTRY + '::new' and v[2]:
                        src = v[2][0]
                    elif v[0] == 'agg' and v[1] == 'tuple' and v[2]:
                        src = v[2][0]
                    elif v[0] == 'field' and v[1] == ('param', 1):
                        # captured entry: look at what the parent captured
                        par, ops = ctx.prog.closure_capture_operands(x)
                        k = int(v[2]) if v[2].isdigit() else None
                        if ops is not None and k is not None and k < len(ops):
                            pv = strip_casts(Expr(par).operand(ops[k]))
                            if pv[0] == 'call' and pv[1] == N.ENTRY + '::new' and pv[2]:
                                src = ('in-parent', par, pv[2][0])
                    okv = False
                    if src is not None:
                        if src[0] == 'in-parent':
                            okv = src[2] == ('param', val_param[1]) and src[1].id == fn.id
                        else:
                            okv = (src == ('param', val_param[1]) and x.id == fn.id)
                    key = '%s/%s' % (flav, m)
                    if kr != own_key:
                        run.bad(rule, key + '/stores-under-other-key', '%s stores under %s, which is not its key parameter' % (fn.name, show(ex.operand(t['args'][1]))), site='%s (%s)' % (x.name, x.loc(b)))
                    elif not okv:
                        run.bad(rule, key + '/stores-other-value', '%s stores %s, which is not an entry freshly built from its value parameter: a re-store can keep (part of) the old entry'
                                % (fn.name, show(v)), site='%s (%s)' % (x.name, x.loc(b)), oracle='store(key, value) stores exactly the given value')
                    else:
                        run.ok(rule, key + '/value-identity', 'stores CacheEntry::new(value) / (value, now, 0) under the key parameter')
    return n


def _dominated_by_oversize(C, fn, sp, w, nd):
    """is the node only reachable through a block carrying the oversize comparison's true edge? approximated by:
    the oversize comparison lies on every path from entry to the node and the node leads to return without storing"""
    tail = sp.forward_from([nd])
    return not any('S+' in w.kinds(fn, x[0]) for x in tail if x != nd)


def check_newcomer_queued_before_victims(run, ctx, rule='C07-S4'):
    """when a store picks victims *after* it has written its own entry into the store, its key must already be at the
    most-recent end of the queue: otherwise the entry just stored sits at its old position (a re-store) or nowhere and the
    victim selection takes the newest entry - the opposite of FIFO / LRU - and its key is appended afterwards as an orphan"""
    C = Core(ctx)
    n = 0
    for flav, adt in FLAVOURS:
        for m in ('insert', 'insert_with_memory'):
            fn = C.method(adt, m)
            if fn is None:
                continue
            for p in range(6):
                a = {'policy': p, 'limit': 1, 'max_memory': 1 if m == 'insert_with_memory' else 0, 'ttl': 0}
                w = C.weigher(a, {}, root=fn)
                specs = {}

                def spec_of(x):
                    if x.id not in specs:
                        specs[x.id] = w.spec(x)
                    return specs[x.id]

                def prefixes(x, depth=0):
                    """effect vectors of everything executed before body x starts (x = fn: nothing)"""
                    zero = tuple([0] * w.dims)
                    if x is fn or depth > 4:
                        return {zero}
                    par = ctx.prog.bodies.get(x.parent)
                    if par is None:
                        return {zero}
                    blks = {blk for (blk, cb, how) in ctx.prog.call_edges(par) if cb.id == x.id and how == 'closure'}
                    if not blks:
                        return {zero}
                    seg = segment_totals(spec_of(par), {0}, blks)
                    here = set()
                    for (how, blk), vs in seg.items():
                        if how == 'stop':
                            here |= vs
                    if 0 in blks:
                        here.add(zero)
                    out = set()
                    for pv in prefixes(par, depth + 1):
                        for v in here:  # empty: the closure is never run under this assumption
                            out.add(tuple(min(2, i + j) for i, j in zip(pv, v)))
                    return out
                bad_at = None
                seen_any = False
                for body in C.scope(fn):
                    sp = spec_of(body)
                    victims = {nd[0] for nd in sp.nodes if 'S-' in w.kinds(body, nd[0])}
                    if not victims:
                        continue
                    seen_any = True
                    seg = segment_totals(sp, {0}, victims)
                    segv = set()
                    for (how, blk), vs in seg.items():
                        if how == 'stop':
                            segv |= vs
                    if 0 in victims:
                        segv.add(tuple([0] * w.dims))
                    for pv in prefixes(body):
                        for v in segv:
                            d = _vec(tuple(min(2, i + j) for i, j in zip(pv, v)))
                            if d['S+'] >= 1 and d['Q>'] + d['Q<'] == 0:
                                bad_at = body
                if not seen_any:
                    continue
                n += 1
                key = '%s/%s/%s' % (flav, m, POL[p])
                if bad_at is not None:
                    run.bad(rule, '%s/%s/victims-before-own-key-is-queued' % (flav, m), '%s writes its entry into the store and then selects victims before the key has been (re-)appended to the '
                            'order queue (policy %s): on a re-store the fresh entry still has its old queue position and is what gets evicted; its key is appended afterwards as an orphan'
                            % (fn.name, POL[p]), site=bad_at.name, oracle='own key queued at the most-recent end before any victim is chosen (or the entry is not yet stored)')
                else:
                    run.ok(rule, key, 'no victim is chosen between the store write and the queue append')
    return n


def check_store_pairing(run, ctx, rule='C04-P4'):
    """C04-P4 / C07-S3 store subset of queue: a completed store leaves the key in the store and (re-)appends it at the
    store end of the queue on every path (a re-store therefore moves the key to the back)"""
    rows, anchors = store_rows(ctx)
    n = 0
    for r in rows:
        a = r['fields']
        if a['limit'] or a['max_memory']:
            continue  # evictions add their own (paired) removals; judged by P1/P2
        key = '%s/%s' % (r['flavour'], r['method'])
        for v in r['outcomes']:
            d = _vec(v)
            n += 1
            if (d['S+'] >= 1) != (d['Q>'] >= 1):
                run.bad(rule, key + '/unpaired', '%s stores the key in the %s but not in the %s on some path (%s)' % (
                    r['fn'].name, 'map' if d['S+'] else 'queue', 'queue' if d['S+'] else 'map', describe(a)), site=r['fn'].name,
                    oracle='every store path inserts the key into the store and appends it to the queue (a re-store moves it to the back)')
            elif d['Q<']:
                run.bad('C07-S1', key + '/push-front', '%s pushes the new key to the front of the queue (%s)' % (r['fn'].name, describe(a)), site=r['fn'].name)
            else:
                run.ok(rule, '%s/%s' % (key, describe(a)), 'S+ and Q> together')
    return n, anchors


# ------------------------------------------------------------------------------------------------
# eviction routines: one victim, victim leaves both (C04-P1/P2, C05-P*, C18-P1)
# ------------------------------------------------------------------------------------------------
def victim_oracle_sites(ctx, C, fn):
    """call sites in the scope of fn whose result says whether a victim is available: (membership tests of a queue key in the
    store, calls that yield a queue key - pops, positional removals, the LFU/ARC/TLRU selectors -, emptiness tests)"""
    member = [(x.id, b) for x in C.scope(fn) for b, t in x.calls() if classify(t) == 'S?']
    selected = [(x.id, b) for x in C.scope(fn) for b, t in x.calls() if classify(t) in ('Q-front', 'Q-at', 'Q-back')]
    empties = [(x.id, b) for x in C.scope(fn) for b, t in x.calls() if callee_name(t) in (N.VD + 'is_empty', N.HM + 'is_empty', N.DM + 'is_empty')]
    # calls of the victim selectors (LFU/ARC/TLRU): with stored keys in the queue they find a victim
    sel_ids = {b_.id for (_, _, b_) in C.selectors()}
    for x in C.scope(fn):
        for b, t in x.calls():
            if any(cb.id in sel_ids for cb in ctx.prog.lookup(t)):
                selected.append((x.id, b))
        # a selector run inside LocalKey::with(closure): the `with` call returns its result
        for b, t in x.calls():
            for cb in ctx.prog.closures_passed(t):
                if any(any(c2.id in sel_ids for c2 in ctx.prog.lookup(t2)) for _, t2 in cb.calls()) and callee_name(t) == 'std::thread::local::LocalKey::with':
                    selected.append((x.id, b))
    return member, selected, empties


def eviction_rows(ctx):
    if hasattr(ctx, '_evict_rows'):
        return ctx._evict_rows
    C = Core(ctx)
    rows = []
    anchors = {}
    for flav, adt in FLAVOURS:
        fn = C.eviction_fn(adt)
        anchors[flav] = fn.name if fn else None
        if fn is None:
            continue
        member, selected, empties = victim_oracle_sites(ctx, C, fn)
        for p in range(6):
            for mem_oracle in (1, 0):
                a = {'policy': p, 'limit': 1, 'max_memory': 0, 'ttl': 1}
                orc = {s: mem_oracle for s in member}
                if mem_oracle == 1:
                    # the queue is not empty and its keys are stored: pops / positional removals yield a key
                    for s in selected:
                        orc[s] = 1
                    for s in empties:
                        orc[s] = 0
                # the overflow comparison is true
                for (xid, bi), lst in C.cmp_sites(fn).items():
                    for (kind, si, op, ra, rb) in lst:
                        if kind == 'cmp:overflow':
                            tv = C.truth_value(fn, (xid, bi, si), 'overflow')
                            orc[(xid, bi, si)] = 1 if tv != 0 else 0
                w = C.weigher(a, orc)
                sp = w.spec(fn)
                outs = set()
                for n_, vs in sp.path_totals().items():
                    outs |= vs
                rows.append({'flavour': flav, 'policy': p, 'member': mem_oracle, 'outcomes': outs, 'fn': fn, 'has_member_test': bool(member)})
    ctx._evict_rows = (rows, anchors)
    return ctx._evict_rows


def check_one_victim(run, ctx, rule_p1='C04-P1', rule_p2='C04-P2'):
    rows, anchors = eviction_rows(ctx)
    n = 0
    for r in rows:
        p = POL[r['policy']]
        key = '%s/%s' % (r['flavour'], p)
        for v in r['outcomes']:
            d = _vec(v)
            n += 1
            where = '%s, overflow, policy %s, queue keys %s' % (r['fn'].name, p, 'all stored' if r['member'] else 'not stored (orphans)')
            if d['S-'] > 1:
                run.bad(rule_p1, key + '/two-victims', 'an overflowing store can remove more than one entry (%s)' % where, site=r['fn'].name,
                        oracle='at most one store removal per overflow on every path')
            elif r['member'] == 1 and d['S-'] == 0:
                run.bad(rule_p1, key + '/overflow-unanswered', 'the cache is over its limit and a victim is available, but a path removes nothing (%s): the cache keeps more than `limit` entries' % where,
                        site=r['fn'].name, oracle='an overflowing store removes exactly one entry')
            elif r['member'] == 1 and d['S-'] != min(1, d['Qrem']) and not (d['S-'] == 0 and d['Qrem'] == 0):
                run.bad(rule_p2, key + '/victim-half-removed', 'the victim is removed from the %s but not from the %s (%s)' % (
                    'queue' if d['Qrem'] else 'store', 'store' if d['Qrem'] else 'queue', where), site=r['fn'].name,
                    oracle='victim leaves the store and the order queue together')
            elif r['member'] == 1 and d['S-'] == 1 and d['Qrem'] > 1 and p not in ('FIFO', 'LRU'):
                run.bad(rule_p2, key + '/queue-loses-more', 'more than one queue key is dropped for one victim (%s)' % where, site=r['fn'].name)
            else:
                run.ok(rule_p1, '%s/member=%d/S-=%d,Qrem=%d' % (key, r['member'], d['S-'], d['Qrem']), where)
    return n, anchors


def check_orphan_tolerance(run, ctx, rule):
    """C18-P1 / C07-P1: FIFO/LRU victim loops skip queue keys that are no longer stored"""
    rows, anchors = eviction_rows(ctx)
    n = 0
    for r in rows:
        p = POL[r['policy']]
        if p not in ('FIFO', 'LRU') or r['member'] != 0:
            continue
        n += 1
        key = '%s/%s' % (r['flavour'], p)
        if not r['has_member_test']:
            run.bad(rule, key + '/no-membership-test', '%s pops the front key without checking that it is still stored: an orphan (legal under concurrency) makes the '
                    'overflow go unanswered' % r['fn'].name, site=r['fn'].name, oracle='victim loop re-checks membership and continues past orphans')
            continue
        # with every membership test failing the loop must keep popping (Qrem may repeat) and remove nothing
        okk = all(_vec(v)['S-'] == 0 for v in r['outcomes'])
        if okk:
            run.ok(rule, key, 'orphans are popped and skipped, nothing is removed for them')
        else:
            run.bad(rule, key + '/orphan-removes', 'a queue key that is not stored still triggers a store removal (%s)' % r['fn'].name, site=r['fn'].name)
    return n


# ------------------------------------------------------------------------------------------------
# comparison normal forms (C04-K1, C05-K1/K2/K3, C06-K1)
# ------------------------------------------------------------------------------------------------
def check_overflow_form(run, ctx):
    """C04-K1: the overflow test agrees with its placement relative to the store insertion"""
    C = Core(ctx)
    n = 0
    for flav, adt in FLAVOURS:
        ev = C.eviction_fn(adt)
        if ev is None:
            run.bad('C04-K1', '%s/fail-closed' % flav, 'fail-closed: no limit-eviction routine found for %s' % adt)
            continue
        forms = []
        for (xid, bi), lst in C.cmp_sites(ev).items():
            for (kind, si, op, ra, rb) in lst:
                if kind == 'cmp:overflow':
                    tv = C.truth_value(ev, (xid, bi, si), 'overflow')
                    if tv is None:
                        run.bad('C04-K1', '%s/unrecognised-form' % flav, 'cannot tell which outcome of the limit comparison in %s leads to an eviction' % ev.name, site=ev.name)
                        continue
                    forms.append(sem_form(op, ra, rb, ['LEN_QUEUE', 'LEN_STORE', 'LIMIT'], tv) + (bi,))
        if len(forms) != 1:
            run.bad('C04-K1', '%s/unrecognised-form' % flav, 'expected exactly one comparison of the queue/store length with the limit in %s, found %d' % (ev.name, len(forms)),
                    site=ev.name, oracle='one recognisable overflow test')
            continue
        left, sym, right, blk = forms[0]
        # placement in the callers
        for m in ('insert', 'insert_with_memory'):
            fn = C.method(adt, m)
            if fn is None:
                continue
            n += 1
            eff = Effects(ctx.prog)
            sites = eff.sites(fn)
            splus = [b for (b, k, ch) in sites if k == 'S+']
            calls = [b for (b, cb, how) in ctx.prog.call_edges(fn) if cb.id == ev.id]
            nested = False
            if not calls:
                # thread-local: the call sits in a closure run by LocalKey::with
                for x in C.scope(fn):
                    for (b, cb, how) in ctx.prog.call_edges(x):
                        if cb.id == ev.id:
                            nested = True
                            # block in fn that runs that closure
                            for (b2, cb2, how2) in ctx.prog.call_edges(fn):
                                if cb2.id == x.id:
                                    calls.append(b2)
            if not splus or not calls:
                run.bad('C04-K1', '%s/%s/fail-closed' % (flav, m), 'fail-closed: cannot locate the store insertion or the eviction call in %s' % fn.name, site=fn.name)
                continue
            before = all(any(fn.dominates(s, c) and s != c for s in splus) for c in calls)
            after = all(any(fn.dominates(c, s) and s != c for c in calls) for s in splus)
            if before and not after:
                want = '>'
            elif after and not before:
                want = '>='
            else:
                run.bad('C04-K1', '%s/%s/placement' % (flav, m), 'the store insertion neither always precedes nor always follows the limit eviction in %s' % fn.name, site=fn.name)
                continue
            key = '%s/%s' % (flav, m)
            if flav == 'global' and left != 'LEN_QUEUE':
                # the sync global cache writes the store and the queue in separate critical sections, so the two can disagree for a
                # moment (tolerated orphans); every eviction shortens the *queue* by one, but its victim may be a key that is no longer
                # stored - only the queue length is re-established, and |store| <= |queue| <= limit is the bound argument
                run.bad('C04-K1', key + '/counts-the-store', 'the overflow test of %s compares %s with the limit; in the sync global cache victims are drawn from the order queue and may be keys '
                        'that are no longer stored, so only a test on the queue length keeps the store within the limit (with the store length a Random victim that is an orphan '
                        'leaves limit+1 entries for good)' % (ev.name, left), site='%s (%s)' % (ev.name, ev.loc(blk)), oracle='sync global: order.len() > limit')
            elif sym == want:
                run.ok('C04-K1', key, '%s %s %s with the new entry %s' % (left, sym, right, 'already stored' if want == '>' else 'not yet stored'))
            else:
                run.bad('C04-K1', key + '/off-by-one', 'the overflow test is `%s %s %s` but the new entry is %s when it runs (%s): the cache would hold %s' % (
                    left, sym, right, 'already stored' if want == '>' else 'not yet stored', fn.name,
                    'limit-1 entries at most (needless eviction)' if (want == '>' and sym == '>=') else 'limit+1 entries'), site='%s (%s)' % (ev.name, ev.loc(blk)),
                    oracle='len > limit after insertion / len >= limit before insertion')
    return n


def check_memory_forms(run, ctx):
    """C05-K1 oversize test, C05-K2 fit test, C05-K3 sum over the store, each with its placement"""
    C = Core(ctx)
    n = 0
    for flav, adt in FLAVOURS:
        fn = C.method(adt, 'insert_with_memory')
        if fn is None:
            run.bad('C05-K1', '%s/fail-closed' % flav, 'fail-closed: no insert_with_memory for %s' % adt)
            continue
        sites = C.cmp_sites(fn)
        over = [(xid, bi) + x for (xid, bi), lst in sites.items() for x in lst if x[0] == 'cmp:oversize']
        fit = [(xid, bi) + x for (xid, bi), lst in sites.items() for x in lst if x[0] == 'cmp:fit']
        # is the new entry stored before the tests?  (sync: yes, async: no)
        a = {'policy': 0, 'limit': 0, 'max_memory': 1, 'ttl': 0}
        key = '%s/insert_with_memory' % flav
        n += 1
        wrong_subject = []
        for x in C.scope(fn):
            for (bi_, si_, op_, ra_, rb_, ea_, eb_, dl_) in C.roles.comparisons(x):
                if 'MAX_MEM' in (ra_, rb_) and ({ra_, rb_} & {'ENTRY_SIZE', 'ENTRY_SUM'} or any(r and r.startswith('ENTRY_SUM') for r in (ra_, rb_) if r)):
                    wrong_subject.append((x, bi_, ra_ if ra_ != 'MAX_MEM' else rb_))
        for (x, bi_, r_) in wrong_subject:
            run.bad('C05-K1', key + '/measures-entry-not-value', 'a memory test in %s compares max_memory with the estimate of something other than the cached value (%s: the whole entry '
                    'including its bookkeeping, or another component): the limit is on the total size of the cached *values*, and the tests must measure the same thing' % (fn.name, r_),
                    site='%s (%s)' % (fn.name, x.loc(bi_)), oracle='estimate_memory of the value component (entry.value / tuple field 0 / the value parameter)')
        if wrong_subject:
            continue
        if len(over) != 1:
            run.bad('C05-K1', key + '/unrecognised-form', 'expected one comparison of the new value\'s size with max_memory in %s, found %d' % (fn.name, len(over)), site=fn.name,
                    oracle='oversize test NEW_SIZE > MAX_MEM present')
        else:
            (xid, bi, kind, si, op, ra, rb) = over[0]
            otv = C.truth_value(fn, (xid, bi, si), 'oversize')
            left, sym, right = sem_form(op, ra, rb, ['NEW_SIZE', 'MAX_MEM'], otv)
            if otv is None:
                run.bad('C05-K1', key + '/unrecognised-form', 'cannot tell which outcome of the size comparison in %s rejects the value' % fn.name, site=fn.name)
            elif sym != '>':
                run.bad('C05-K1', key + '/form', 'the oversize test is `%s %s %s` (must be NEW_SIZE > MAX_MEM: a value of exactly max_memory fits)' % (left, sym, right),
                        site='%s (%s)' % (fn.name, ctx.prog.bodies[xid].loc(bi)), oracle='NEW_SIZE > MAX_MEM')
            else:
                run.ok('C05-K1', key + '/form', 'NEW_SIZE > MAX_MEM')
            # scenario: oversize true => returns with no net entry and no eviction of others
            for val in (1, 0):
                orc = {(xid, bi, si): (val if otv != 0 else 1 - val)}
                for p, lim in [(p_, l_) for p_ in range(6) for l_ in (0, 1)]:
                    aa = {'policy': p, 'limit': lim, 'max_memory': 1, 'ttl': 0}
                    w = C.weigher(aa, orc, root=fn)
                    sp = w.spec(fn)
                    for n_, vs in sp.path_totals().items():
                        for v in vs:
                            d = _vec(v)
                            if val == 1:
                                # no other entry is displaced; if the value was stored first it is taken out again
                                if d['cmp:fit'] or d['S-'] or d['S0'] or (d['S+'] >= 1 and d['Srepl'] < 1) or (d['Q>'] >= 1 and d['Qrem'] < 1):
                                    run.bad('C05-K1', '%s/%s/oversize-effects' % (key, POL[p]), 'a value larger than max_memory is stored or displaces other entries '
                                            '(stored %d, own key removed %d, other entries removed %d, queue +%d -%d, fit tests %d) in %s' % (d['S+'], d['Srepl'], d['S-'], d['Q>'], d['Qrem'], d['cmp:fit'], fn.name), site=fn.name,
                                            oracle='oversize => no net entry, no other eviction')
                                elif (d['Q-back'] + d['Q-front'] >= 1) and (d['Q>'] + d['Q<'] == 0):
                                    run.bad('C05-K1', '%s/%s/oversize-pops-foreign-slot' % (key, POL[p]), 'the oversize path of %s pops an end of the order queue although it has not pushed its '
                                            'key on this path: the slot removed belongs to another key, whose entry stays stored and can never be evicted again' % fn.name, site=fn.name,
                                            oracle='a positional queue removal on the oversize path takes back the push made on the same path')
                                elif (d['Q>'] >= 1 and d['Q-front'] >= 1) or (d['Q<'] >= 1 and d['Q-back'] >= 1):
                                    run.bad('C05-K1', '%s/%s/oversize-wrong-queue-slot' % (key, POL[p]), 'the oversize path of %s takes its key out of the store but pops the *other* end of the '
                                            'queue than the one it just pushed the key to: the oldest key leaves the queue while its entry stays stored (it can never be evicted again) and the '
                                            'refused key stays queued' % fn.name, site=fn.name, oracle='the slot removed is the one just added (same end, or removal by key)')
                                else:
                                    run.ok('C05-K1', '%s/%s/limit=%d/oversize' % (key, POL[p], lim), 'no net entry (stored %d, taken out again %d), no other entry removed, eviction loop not entered' % (d['S+'], d['Srepl']))
                            else:
                                if d['S+'] >= 1 and d['cmp:fit'] < 1:
                                    run.bad('C05-K2', '%s/%s/fit-test-skipped' % (key, POL[p]), 'a value that is not oversize is stored on a path without the fit test (%s)' % fn.name, site=fn.name)
                                else:
                                    run.ok('C05-K2', '%s/%s/limit=%d/fit-on-path' % (key, POL[p], lim), 'fit test on the path')
        if len(fit) != 1:
            run.bad('C05-K2', key + '/unrecognised-form', 'expected one comparison of the summed sizes with max_memory in %s, found %d' % (fn.name, len(fit)), site=fn.name,
                    oracle='fit test MEM_SUM(+NEW_SIZE) <= MAX_MEM present')
        else:
            (xid, bi, kind, si, op, ra, rb) = fit[0]
            body = ctx.prog.bodies[xid]
            sumrole = ra if ra != 'MAX_MEM' else rb
            ftv = C.truth_value(fn, (xid, bi, si), 'fits')
            left, sym, right = sem_form(op, ra, rb, [sumrole, 'MAX_MEM'], ftv)
            if ftv is None:
                run.bad('C05-K2', key + '/unrecognised-form', 'cannot tell which outcome of the total-size comparison in %s ends the eviction loop' % fn.name, site=fn.name)
                continue
            # placement: is the new entry stored before the loop?
            eff = Effects(ctx.prog)
            root_sites = eff.sites(fn)
            splus = [b for (b, k, ch) in root_sites if k == 'S+']
            stored_before = None
            if body.id == fn.id:
                stored_before = any(fn.dominates(s, bi) for s in splus)
            else:
                # test inside a closure: compare in the root through the block that runs the closure chain
                blk = None
                cur = body
                while cur.id != fn.id:
                    par = ctx.prog.bodies[cur.parent]
                    for (b2, cb2, how2) in ctx.prog.call_edges(par):
                        if cb2.id == cur.id:
                            blk = b2
                    cur = par
                stored_before = any(fn.dominates(s, blk) and s != blk for s in splus) if blk is not None else None
            want_role = 'MEM_SUM' if stored_before else 'MEM_SUM+NEW_SIZE'
            if stored_before is None:
                run.bad('C05-K2', key + '/placement', 'fail-closed: cannot place the fit test relative to the store insertion in %s' % fn.name, site=fn.name)
            elif sym == '<=' and left in (want_role, '+'.join(reversed(want_role.split('+')))):
                run.ok('C05-K2', key + '/form', '%s <= MAX_MEM with the new entry %s' % (left, 'already stored' if stored_before else 'not yet stored'))
            else:
                run.bad('C05-K2', key + '/form', 'the fit test is `%s %s %s`; with the new entry %s it must be `%s <= MAX_MEM`' % (
                    left, sym, right, 'already stored' if stored_before else 'not yet stored', want_role), site='%s (%s)' % (fn.name, body.loc(bi)),
                    oracle='evict only while the total does not fit, stop as soon as it does')
            # K2 scenario: fit true => no eviction at all
            for val in (1,):
                orc = {(xid, bi, si): ftv}
                for (oxid, obi, okind, osi, oop, ora, orb) in over:
                    otv2 = C.truth_value(fn, (oxid, obi, osi), 'oversize')
                    orc[(oxid, obi, osi)] = 0 if otv2 != 0 else 1
                for p in range(6):
                    aa = {'policy': p, 'limit': 0, 'max_memory': 1, 'ttl': 0}
                    w = C.weigher(aa, orc, root=fn)
                    sp = w.spec(fn)
                    for n_, vs in sp.path_totals().items():
                        for v in vs:
                            d = _vec(v)
                            if d['S-'] or d['S0']:
                                run.bad('C05-K2', '%s/%s/evicts-while-fitting' % (key, POL[p]), 'an entry is evicted although the total already fits (%s)' % fn.name, site=fn.name,
                                        oracle='never evict while the total fits')
                            else:
                                run.ok('C05-K2', '%s/%s/fits-no-eviction' % (key, POL[p]), 'fit => no removal')
    return n


def check_expiry_form(run, ctx):
    """C06-K1: expired iff whole seconds elapsed >= ttl"""
    C = Core(ctx)
    n = 0
    ie = ctx.core_fn(IS_EXPIRED)
    if ie is None:
        run.bad('C06-K1', 'is_expired/fail-closed', 'fail-closed: CacheEntry::is_expired not found')
    else:
        cmps = C.roles.comparisons(ie)
        forms = []
        for (bi, si, op, ra, rb, ea, eb, dl) in cmps:
            # the ttl side is the payload of the Option parameter
            def is_ttl_param(e):
                root, names = field_path(strip_casts(e))
                return root[0] == 'param' and names == ['as:Some', '0']
            if ra == 'AGE_SECS' and is_ttl_param(eb):
                forms.append((SYM[op], bi, dl))
            elif rb == 'AGE_SECS' and is_ttl_param(ea):
                forms.append((SYM[FLIP[op]], bi, dl))
        n += 1
        if len(forms) != 1 or len(cmps) != 1:
            run.bad('C06-K1', 'sync/unrecognised-form', 'expected exactly one comparison of whole elapsed seconds with the ttl in CacheEntry::is_expired (found %d recognised of %d)'
                    % (len(forms), len(cmps)), site=ie.name, oracle='as_secs(elapsed(inserted_at)) >= ttl')
        else:
            sym, bi, dl = forms[0]
            if sym != '>=':
                run.bad('C06-K1', 'sync/form', 'the expiry test is `age %s ttl`; an entry of age exactly ttl must be expired (age >= ttl)' % sym, site='%s (%s)' % (ie.name, ie.loc(bi)),
                        oracle='AGE_SECS >= TTL')
            else:
                run.ok('C06-K1', 'sync/form', 'AGE_SECS >= TTL on whole seconds')
            # returned directly, and false without ttl
            ok_ret = True
            rets = ie.defs.get(0, [])
            vals = []
            for d in rets:
                if d[0] == 'stmt' and 'use' in d[3] and 'const' in d[3]['use']:
                    vals.append(d[3]['use']['const'].get('int'))
                elif d[0] == 'stmt' and 'bin' in d[3]:
                    vals.append('cmp')
                elif d[0] == 'stmt' and 'use' in d[3]:
                    p = d[3]['use'].get('copy') or d[3]['use'].get('move')
                    vals.append('cmp' if p and p['l'] == dl else '?')
                else:
                    vals.append('?')
            if sorted(map(str, vals)) != ['0', 'cmp']:
                run.bad('C06-K1', 'sync/result', 'is_expired must return the comparison when a ttl is given and false otherwise; found result definitions %s' % vals, site=ie.name)
            else:
                # the constant-false definition must sit on the None edge
                sp = Spec(ctx.prog, ie, {})
                run.ok('C06-K1', 'sync/result', 'returns the comparison with ttl, false without')
    # async
    get = C.method(N.ASYNC, 'get')
    if get is not None:
        n += 1
        ex = [(bi, x) for (xid, bi), lst in C.cmp_sites(get).items() for x in lst if x[0] == 'cmp:expiry']
        if len(ex) != 1:
            run.bad('C06-K1', 'async/unrecognised-form', 'expected one comparison of the entry age (whole seconds) with the ttl in %s, found %d' % (get.name, len(ex)), site=get.name,
                    oracle='saturating_sub(now_secs, stored_secs) >= ttl')
        else:
            bi, (kind, si, op, ra, rb) = ex[0]
            etv = C.truth_value(get, (get.id, bi, si), 'expired')
            left, sym, right = sem_form(op, ra, rb, ['AGE_SECS', 'TTL'], etv)
            if etv is None:
                run.bad('C06-K1', 'async/unrecognised-form', 'cannot tell which outcome of the age comparison in %s treats the entry as expired' % get.name, site=get.name)
            elif sym != '>=':
                run.bad('C06-K1', 'async/form', 'the async expiry test is `%s %s %s`; must be AGE_SECS >= TTL' % (left, sym, right), site='%s (%s)' % (get.name, get.loc(bi)), oracle='AGE_SECS >= TTL')
            else:
                run.ok('C06-K1', 'async/form', 'AGE_SECS >= TTL on whole seconds')
    return n


def check_memory_loop(run, ctx):
    """C05-P*: each iteration of the evict-until-fits loop removes exactly one victim from store and queue;
    an iteration that removed nothing leaves the loop (termination)"""
    C = Core(ctx)
    n = 0
    for flav, adt in FLAVOURS:
        fn = C.method(adt, 'insert_with_memory')
        if fn is None:
            continue
        fit = [(xid, bi) + x for (xid, bi), lst in C.cmp_sites(fn).items() for x in lst if x[0] == 'cmp:fit']
        if len(fit) != 1:
            run.bad('C05-P1', '%s/fail-closed' % flav, 'fail-closed: fit test not found in %s' % fn.name, site=fn.name)
            continue
        (xid, bi, kind, si, op, ra, rb) = fit[0]
        body = ctx.prog.bodies[xid]
        sumrole = ra if ra != 'MAX_MEM' else rb
        ftv = C.truth_value(fn, (xid, bi, si), 'fits')
        if ftv is None:
            run.bad('C05-P1', '%s/fail-closed' % flav, 'fail-closed: cannot tell which outcome of the fit test of %s ends the loop' % fn.name, site=fn.name)
            continue
        fits_raw = lambda truth: ftv if truth else 1 - ftv
        member, selected, empties = victim_oracle_sites(ctx, C, fn)
        for p in range(6):
            a = {'policy': p, 'limit': 0, 'max_memory': 1, 'ttl': 1}
            orc = {(xid, bi, si): fits_raw(0)}
            for s_ in member + selected:
                orc[s_] = 1
            for s_ in empties:
                orc[s_] = 0
            w = C.weigher(a, orc, root=fn)
            sp = w.spec(body)
            seg = segment_totals(sp, {bi}, {bi})
            key = '%s/%s' % (flav, POL[p])
            n += 1
            if not seg:
                run.bad('C05-P1', key + '/fail-closed', 'fail-closed: no path leaves the fit test of %s under policy %s' % (fn.name, POL[p]), site=fn.name)
                continue
            okk = True
            for (how, blk), vs in seg.items():
                for v in vs:
                    d = _vec(v)
                    if d['S-'] > 1 or (d['S-'] == 1) != (d['Qrem'] >= 1):
                        okk = False
                        run.bad('C05-P1', key + '/victim-half-removed', 'one iteration of the memory eviction loop removes %d store entr%s and %d queue key(s) (%s, policy %s)' % (
                            d['S-'], 'y' if d['S-'] == 1 else 'ies', d['Qrem'], fn.name, POL[p]), site=fn.name, oracle='one victim per iteration, removed from store and queue together')
                    elif how == 'return' and d['S-'] >= 1 and d['cmp:oversize'] == 0:
                        okk = False
                        run.bad('C05-P1', key + '/leaves-after-one-eviction', 'after removing a victim the eviction loop of %s returns without comparing the total with max_memory again '
                                '(policy %s): one eviction is not always enough, the cache can stay above max_memory' % (fn.name, POL[p]), site=fn.name,
                                oracle='every eviction is followed by another fit test')
                    elif how == 'return' and d['S-'] == 0 and d['cmp:oversize'] == 0:
                        okk = False
                        run.bad('C05-P1', key + '/gives-up-with-a-victim-available', 'the total exceeds max_memory and the queue holds stored keys, but an iteration of the eviction loop of %s '
                                'removes nothing and leaves (policy %s): the cache stays above max_memory' % (fn.name, POL[p]), site=fn.name, oracle='evict until the total fits')
                    elif how == 'stop' and d['S-'] == 0:
                        okk = False
                        run.bad('C05-P1', key + '/loops-without-evicting', 'an iteration of the memory eviction loop that removed nothing goes round again (%s, policy %s): the store '
                                'call may never return' % (fn.name, POL[p]), site=fn.name, oracle='an arm reports "evicted" only on a path with a store removal')
                    elif d['S+'] and how == 'stop':
                        okk = False
                        run.bad('C05-P1', key + '/stores-in-loop', 'the eviction loop stores entries (%s)' % fn.name, site=fn.name)
            if okk:
                run.ok('C05-P1', key, '%d iteration path class(es): one victim, removed from store and queue' % sum(len(v) for v in seg.values()))
    return n


# ------------------------------------------------------------------------------------------------
# victim selectors (C08-K1..K4)
# ------------------------------------------------------------------------------------------------
NEXT = 'core::iter::traits::iterator::Iterator::next'


def _phi_defs(body, ex, l):
    out = []
    for d in body.defs.get(l, []):
        out.append(ex._def(d, 0))
    return out


def _mul_factors(e):
    e = strip_casts(e)
    if e[0] == 'bin' and e[1] == 'Mul':
        return _mul_factors(e[2]) + _mul_factors(e[3])
    return [e]


def _mentions_index(e):
    """does e contain the enumeration index `next(..).as:Some.0.0`?"""
    for x in walk(e):
        if x[0] == 'field':
            root, names = field_path(x)
            if names[-3:] == ['as:Some', '0', '0'] and root[0] == 'call' and root[1] == NEXT:
                return True
    return False


def _polarity(e):
    """sign of d(e)/d(index): '+', '-', '0' (no index) or '?'"""
    e = strip_casts(e)
    if e[0] == 'field' and e[2] == '0' and e[1][0] == 'bin' and e[1][1].endswith('WithOverflow'):
        e = ('bin', e[1][1].replace('WithOverflow', ''), e[1][2], e[1][3])
    if e[0] == 'bin' and e[1] in ('Add', 'Sub'):
        pa, pb = _polarity(e[2]), _polarity(e[3])
        if e[1] == 'Sub':
            pb = {'+': '-', '-': '+', '0': '0', '?': '?'}[pb]
        s = {pa, pb} - {'0'}
        if not s:
            return '0'
        if len(s) == 1:
            return s.pop()
        return '?'
    if _mentions_index(e):
        root, names = field_path(e)
        if names[-3:] == ['as:Some', '0', '0']:
            return '+'
        return '?'
    return '0'


def _is_freq(e):
    e = strip_casts(e)
    root, names = field_path(e)
    return bool(names) and names[-1] in ('frequency', '2') and root[0] == 'call' and root[1] in (N.HM + 'get', N.DM + 'get')


def _abs_form(ctx, body, e, depth=0):
    """abstract normal form of a score-factor expression over the leaves F (hit counter of the looked-up entry), W (frequency_weight
    payload), TTL (ttl payload), I (queue index of the candidate), N (queue length), E (age of the entry in seconds)"""
    e = strip_casts(e)
    if depth > 12:
        return '?deep'
    if _is_freq(e):
        return 'F'
    k = e[0]
    if k == 'const':
        return ('%g' % e[1]) if isinstance(e[1], (int, float)) and not isinstance(e[1], bool) else '?const'
    if k == 'field' and e[2] == '0' and e[1][0] == 'bin' and e[1][1].endswith('WithOverflow'):
        return _abs_bin(ctx, body, e[1][1].replace('WithOverflow', ''), e[1][2], e[1][3], depth)
    if k == 'bin':
        return _abs_bin(ctx, body, e[1], e[2], e[3], depth)
    if k == 'field':
        root, names = field_path(e)
        if names[-3:] == ['as:Some', '0', '0'] and root[0] == 'call' and root[1] == NEXT:
            return 'I'
        if names[-2:] == ['as:Some', '0']:
            base = names[:-2]
            if base and base[-1] == 'frequency_weight':
                return 'W'
            if base and base[-1] == 'ttl':
                return 'TTL'
            if not base and root[0] == 'param':
                ty = body.local_ty(root[1])
                if ty.startswith(N.OPTION + '<f64'):
                    return 'W'
                if ty.startswith(N.OPTION + '<u64'):
                    return 'TTL'
        return '?' + show(e)
    if k == 'call':
        cn = e[1]
        short = cn.rsplit('::', 1)[-1]
        if Roles(ctx.prog).role(body, e) == 'AGE_SECS':
            return 'E'
        if cn == 'core::time::Duration::as_secs_f64' and e[2]:
            inner = strip_casts(e[2][0])
            if inner[0] == 'call' and inner[1] == 'std::time::Instant::elapsed':
                root, names = field_path(strip_casts(inner[2][0]))
                if names and names[-1] == 'inserted_at':
                    return 'E'
        if short == 'len' and len(e[2]) == 1:
            return 'N'
        return '%s(%s)' % (short, ', '.join(_abs_form(ctx, body, a, depth + 1) for a in e[2]))
    return '?' + k


def _abs_bin(ctx, body, op, a, b, depth):
    x, y = _abs_form(ctx, body, a, depth + 1), _abs_form(ctx, body, b, depth + 1)
    sym = {'Add': '+', 'Sub': '-', 'Mul': '*', 'Div': '/', 'Rem': '%'}.get(op, op)
    if op in ('Add', 'Mul'):
        x, y = sorted((x, y))
    return '(%s %s %s)' % (x, sym, y)


def _guards_of(ctx, body, ex, blk):
    """abstract forms ('F > 0', ...) of the comparisons whose outcome the block is control-dependent on, oriented to the
    outcome that leads to the block"""
    NEGS = {'<': '>=', '<=': '>', '>': '<=', '>=': '<', '==': '!=', '!=': '=='}
    SY = {'Lt': '<', 'Le': '<=', 'Gt': '>', 'Ge': '>=', 'Eq': '==', 'Ne': '!='}
    out = set()
    for (br, succ) in body.cdeps.get(blk, ()):
        t = body.term(br)
        if t['k'] != 'switch' or len(t['targets']) != 1 or t['targets'][0][0] != 0:
            continue
        p_ = t['discr'].get('move') or t['discr'].get('copy')
        if p_ is None:
            continue
        for d in body.defs.get(p_['l'], []):
            if d[0] == 'stmt' and 'bin' in d[3] and d[3]['bin'] in SY:
                a = _abs_form(ctx, body, ex.operand(d[3]['a']))
                b = _abs_form(ctx, body, ex.operand(d[3]['b']))
                sym = SY[d[3]['bin']]
                if succ == t['targets'][0][1] and succ != t['otherwise']:
                    sym = NEGS[sym]
                out.add('%s %s %s' % (a, sym, b))
    return out


# documented score factors, in abstract normal form (see _abs_form)
FACTOR_FORMS = {
    'FREQ': {'F', '(F * W)', 'powf(F, W)', '0'},
    'POS': {'(1 + I)', '(N - I)'},
    'AGE': {'1', 'max((1 - min((E / TTL), 1)), 0)'},
}


def analyse_selector(ctx, body):
    ex = Expr(body)
    info = {'fn': body.name}
    # loop: the `next` call whose result is switched on
    nxt = [b for b, t in body.calls() if callee_name(t) == NEXT]
    info['loops'] = len(nxt)
    exhaustive = None
    if len(nxt) == 1:
        nb = nxt[0]
        t = body.term(nb)
        sw = t['target']
        # follow gotos to the switch
        seen = set()
        while sw is not None and body.term(sw)['k'] == 'goto' and sw not in seen:
            seen.add(sw)
            sw = body.term(sw)['target']
        st = body.term(sw) if sw is not None else None
        if st and st['k'] == 'switch':
            none_t = None
            for v, tb in st['targets']:
                if v == 0:
                    none_t = tb
            if none_t is None:
                none_t = st['otherwise']
            exhaustive = all(body.dominates(none_t, r) for r in body.exits())
    info['exhaustive'] = exhaustive
    # what is iterated: the queue parameter (or an iterator parameter over it)
    # lookups of the iterated key in the store, with a skip when absent
    gets = [(b, t) for b, t in body.calls() if classify(t) == 'Sget' or (callee_name(t) == N.HM + 'get')]
    info['lookups'] = len(gets)
    # candidate comparison
    cmps = []
    for bi, bl in enumerate(body.blocks):
        if bl['cleanup']:
            continue
        for si, st_ in enumerate(bl['stmts']):
            if st_['k'] == 'assign' and 'bin' in st_['rv'] and st_['rv']['bin'] in FLIP:
                a = ex.operand(st_['rv']['a'])
                b = ex.operand(st_['rv']['b'])
                op = st_['rv']['bin']
                if strip_casts(b)[0] == 'phi' and strip_casts(a)[0] != 'phi':
                    cmps.append((bi, SYM[op], a, strip_casts(b)[1]))
                elif strip_casts(a)[0] == 'phi' and strip_casts(b)[0] != 'phi':
                    cmps.append((bi, SYM[FLIP[op]], b, strip_casts(a)[1]))
    best = []
    for (bi, sym, score, phil) in cmps:
        defs = _phi_defs(body, ex, phil)
        has_max = any((d[0] == 'const' and isinstance(d[1], (int, float)) and d[1] >= 1.0e18) or (d[0] == 'static' and d[1].endswith('::MAX')) for d in defs)
        if has_max:
            best.append((bi, sym, score, phil))
    info['best_cmp'] = [(bi, sym, show(score)) for (bi, sym, score, phil) in best]
    info['score'] = None
    if len(best) == 1:
        bi, sym, score, phil = best[0]
        info['cmp_sym'] = sym
        info['cmp_block'] = bi
        # which outcome of the comparison updates the running best?  (a swapped if/else or a negated test selects the maximum)
        info['update_edge'] = None
        tsw = body.term(bi)
        if tsw['k'] == 'switch' and len(tsw['targets']) == 1 and tsw['targets'][0][0] == 0:
            false_t, true_t = tsw['targets'][0][1], tsw['otherwise']
            upd = [d[1] for d in body.defs.get(phil, []) if d[1] != 0 and not (d[0] == 'stmt' and 'use' in d[3] and 'const' in d[3]['use'])]
            upd = [b_ for b_ in upd if body.dominates(bi, b_)]
            if upd:
                on_true = all(body.dominates(true_t, b_) for b_ in upd) and true_t != false_t
                on_false = all(body.dominates(false_t, b_) for b_ in upd) and true_t != false_t
                info['update_edge'] = 'true' if on_true and not on_false else 'false' if on_false and not on_true else None
        factors = _mul_factors(score)
        fi = []
        for f in factors:
            f0 = strip_casts(f)
            kind = '?'
            detail = show(f0)
            fdefs = _phi_defs(body, ex, f0[1]) if f0[0] == 'phi' else [f0]
            forms = sorted({_abs_form(ctx, body, d) for d in fdefs})
            if _is_freq(f0):
                kind = 'FREQ'
            elif _mentions_index(f0):
                kind = 'POS' + _polarity(f0)
            elif f0[0] == 'phi':
                defs = _phi_defs(body, ex, f0[1])
                txt = ' | '.join(show(d) for d in defs)
                if any(_is_freq(strip_casts(x)) or any(_is_freq(strip_casts(y)) for y in walk(x)) for x in defs):
                    if any(c[1].endswith('::powf') for d in defs for c in calls_in(d)):
                        kind = 'FREQ^W'
                    elif any(strip_casts(d)[0] == 'bin' and strip_casts(d)[1] == 'Mul' for d in defs):
                        kind = 'FREQ*W'
                    else:
                        kind = 'FREQ'
                elif any(c[1].endswith('elapsed') or c[1].endswith('saturating_sub') for d in defs for c in calls_in(d)) or \
                        any(strip_casts(d)[0] == 'const' and d[1] == 1.0 for d in defs):
                    kind = 'AGE'
                    # age factor: 1.0 without ttl, clamp(1 - elapsed/ttl) with
                    has_one = any(strip_casts(d)[0] == 'const' and strip_casts(d)[1] == 1.0 for d in defs)
                    has_clamp = any(any(c[1].endswith('::max') for c in calls_in(d)) and any(c[1].endswith('::min') for c in calls_in(d)) for d in defs)
                    # the consumed fraction elapsed/ttl must be a floating-point quotient (an integer quotient is 0 for every unexpired entry)
                    float_div = False
                    for d in defs:
                        for x in walk(d):
                            if x[0] == 'bin' and x[1] == 'Div':
                                def _is_float(y):
                                    return (y[0] == 'cast' and y[2] in ('f64', 'f32')) or (y[0] == 'call' and y[1].endswith('_f64')) or (y[0] == 'const' and isinstance(y[1], float)) \
                                        or (y[0] == 'phi')
                                float_div = _is_float(x[2]) and _is_float(x[3])
                    kind = 'AGE' if (has_one and has_clamp and float_div) else 'AGE?'
                detail = txt
            fi.append((kind, detail))
            info.setdefault('forms', []).append((kind, forms))
            if f0[0] == 'phi' and kind.startswith('FREQ'):
                for d_ in body.defs.get(f0[1], []):
                    fm = _abs_form(ctx, body, ex._def(d_, 0))
                    if fm in ('0', 'powf(F, W)'):
                        info.setdefault('freq_guards', []).append((fm, sorted(_guards_of(ctx, body, ex, d_[1]))))
        info['score'] = fi
    return info


def check_selectors(run, ctx):
    C = Core(ctx)
    n = 0
    found = 0
    # residents compete only where the newcomer is not yet stored when the scan runs
    sf = {adt: newcomer_stored_first(ctx, adt) for _, adt in FLAVOURS}
    compete_by_flavour = {'sync': not (sf[N.GLOBAL] is True and sf[N.THREAD] is True), 'async': sf[N.ASYNC] is not True,
                          'shared': not (sf[N.GLOBAL] is True and sf[N.THREAD] is True and sf[N.ASYNC] is True)}
    for (flav, pol, body) in C.selectors():
        name = body.name
        key = '%s/%s' % (flav, pol)
        found += 1
        info = analyse_selector(ctx, body)
        n += 1
        if info['loops'] != 1 or info['exhaustive'] is None:
            run.bad('C08-K1', key + '/unrecognised-form', 'cannot recognise the scan loop of %s (%d iterator loops)' % (name, info['loops']), site=name)
            continue
        if not info['exhaustive']:
            run.bad('C08-K1', key + '/scan-stops-early', '%s can return before the whole queue has been scanned: the victim is then not the minimum' % name, site=name,
                    oracle='the scan leaves the loop only when the iterator is exhausted')
        else:
            run.ok('C08-K1', key + '/whole-queue', 'every return is dominated by the exhausted-iterator edge')
        if len(info['best_cmp']) != 1:
            run.bad('C08-K1', key + '/unrecognised-form', 'expected one comparison of a candidate score with the running minimum in %s, found %d' % (name, len(info['best_cmp'])), site=name)
            continue
        if info.get('update_edge') is None:
            run.bad('C08-K1', key + '/unrecognised-form', 'cannot tell which outcome of the comparison with the running minimum updates it in %s' % name, site=name)
            continue
        if info['update_edge'] == 'false':
            info['cmp_sym'] = {'<': '>=', '<=': '>', '>': '<=', '>=': '<'}[info['cmp_sym']]
        if info['cmp_sym'] not in ('<', '<='):
            run.bad('C08-K1', key + '/direction', 'the candidate replaces the running best when its score is `%s` the best so far in %s: that selects the maximum, not the minimum'
                    % (info['cmp_sym'], name), site='%s (%s)' % (name, body.loc(info['cmp_block'])), oracle='replace on < (or <=)')
        else:
            run.ok('C08-K1', key + '/direction', 'candidate replaces the minimum on %s' % info['cmp_sym'])
        kinds = [k for (k, _) in info['score']]
        for (fk_, forms_) in info.get('forms', []):
            fam = 'FREQ' if fk_.startswith('FREQ') else 'POS' if fk_.startswith('POS') else 'AGE' if fk_.startswith('AGE') else None
            if fam is None:
                continue
            odd = [f for f in forms_ if f not in FACTOR_FORMS[fam]]
            if odd:
                run.bad('C08-K2', key + '/factor-form', 'the %s factor of the %s score in %s is computed as %s; documented forms: %s (F hit counter, W frequency_weight, I queue index, '
                        'N queue length, E age in seconds)' % (fam, pol, name, ' | '.join(odd), ' | '.join(sorted(FACTOR_FORMS[fam]))), site=name, oracle='score factor in a documented normal form')
            else:
                run.ok('C08-K2', key + '/factor-form/' + fam, ' | '.join(forms_))
        ZERO_OK = {'F <= 0', 'F == 0', 'F < 1', '0 >= F', '0 == F', '1 > F'}
        POW_OK = {'F > 0', 'F != 0', 'F >= 1', '0 < F', '0 != F', '1 <= F'}
        for (fm, gs) in info.get('freq_guards', []):
            okg = bool(set(gs) & (ZERO_OK if fm == '0' else POW_OK))
            if okg:
                run.ok('C08-K2', '%s/freq-guard/%s' % (key, fm), 'taken when %s' % ' / '.join(gs))
            else:
                run.bad('C08-K2', key + '/freq-guard', 'in %s the hit-count factor is %s when %s: the weighted hit count must be used for every entry that has hits '
                        '(0 only for an entry without hits)' % (name, fm, ' and '.join(gs) or 'no recognisable test holds'), site=name, oracle='0 iff F == 0, powf(F, W) iff F > 0')
        if pol == 'LFU':
            if kinds != ['FREQ']:
                run.bad('C08-K2', key + '/score', 'LFU score must be the hit counter of the looked-up entry; found factors %s' % info['score'], site=name)
            else:
                run.ok('C08-K2', key + '/score', 'score = hit counter')
            continue
        want = {'ARC': ['FREQ', 'POS'], 'TLRU': ['AGE', 'FREQ', 'POS']}[pol]
        got = sorted(k.rstrip('+-?').replace('FREQ^W', 'FREQ').replace('FREQ*W', 'FREQ') if not k.startswith('AGE') else k for k in kinds)
        if got != want:
            run.bad('C08-K2', key + '/score', '%s score must be the product of %s; found factors %s' % (pol, ' x '.join(want), info['score']), site=name,
                    oracle='documented score factors')
        else:
            run.ok('C08-K2', key + '/score', 'score = %s' % ' x '.join(kinds))
        pos = [k for k in kinds if k.startswith('POS')]
        compete = compete_by_flavour[flav]
        if pos:
            pol_sign = pos[0][3:]
            if not compete:
                run.masked('C08-K3', key + '/polarity', 'sync flavours store the newcomer first: its score 0 always wins, the position term cannot change the victim (found %s)' % pol_sign)
            elif pol_sign == '+':
                run.ok('C08-K3', key + '/polarity', 'position term grows towards the most-recent end')
            else:
                run.bad('C08-K3', key + '/polarity', 'the recency weight of %s %s with the queue index although the queue\'s back is the most recently used end: of two equally '
                        'popular entries the more recently used one is evicted' % (name, 'decreases' if pol_sign == '-' else 'is not monotone'), site=name,
                        oracle='recency rank increases with the queue position (back = most recent)')
        if pol == 'TLRU':
            fk = [k for k in kinds if k.startswith('FREQ')]
            if not compete:
                run.masked('C08-K4', key + '/exponent', 'sync flavours: newcomer always wins (found %s)' % fk)
            elif fk == ['FREQ^W']:
                run.ok('C08-K4', key + '/exponent', 'hits^frequency_weight')
            else:
                run.bad('C08-K4', key + '/exponent', 'TLRU frequency component of %s is %s; documented: hits raised to frequency_weight' % (name, fk), site=name)
    run.require('C08-K1', 'selectors', found, 6)
    return n


def newcomer_stored_first(ctx, adt):
    """True if in this flavour the store insertion dominates the limit eviction (sync), False if it
    follows it (async), None if undetermined"""
    C = Core(ctx)
    ev = C.eviction_fn(adt)
    fn = C.method(adt, 'insert')
    if ev is None or fn is None:
        return None
    eff = Effects(ctx.prog)
    splus = [b for (b, k, ch) in eff.sites(fn) if k == 'S+']
    calls = [b for (b, cb, how) in ctx.prog.call_edges(fn) if cb.id == ev.id]
    if not calls:
        for x in C.scope(fn):
            for (b, cb, how) in ctx.prog.call_edges(x):
                if cb.id == ev.id:
                    for (b2, cb2, how2) in ctx.prog.call_edges(fn):
                        if cb2.id == x.id:
                            calls.append(b2)
    if not splus or not calls:
        return None
    if all(any(fn.dominates(s_, c) and s_ != c for s_ in splus) for c in calls):
        return True
    if all(any(fn.dominates(c, s_) and s_ != c for c in calls) for s_ in splus):
        return False
    return None


def _rooted_in_dashmap(body, place):
    """is the place a component of an entry reached through a DashMap reference?"""
    e = Expr(body).place(place)
    root, names = field_path(e)
    return root[0] == 'call' and root[1].startswith(N.DM)


def check_frequency_shapes(run, ctx):
    """C08-S1 new entries start at zero; increment_frequency adds exactly one; C06-S1 birth time written at store only"""
    core = ctx.core
    n = 0
    # CacheEntry aggregates
    aggs = []
    writes = []
    for body in core.bodies.values():
        ex = None
        for bi, bl in enumerate(body.blocks):
            if bl['cleanup']:
                continue
            for st in bl['stmts']:
                if st['k'] != 'assign':
                    continue
                rv = st['rv']
                if 'agg' in rv and isinstance(rv['agg'], dict) and rv['agg'].get('adt') == N.ENTRY:
                    ex = ex or Expr(body)
                    aggs.append((body, bi, [ex.operand(o) for o in rv['ops']]))
                proj = [e for e in (st['dst'].get('proj') or []) if e != 'deref']
                if proj and isinstance(proj[-1], dict) and proj[-1].get('on') == N.ENTRY and proj[-1].get('name') in ('inserted_at', 'frequency'):
                    ex = ex or Expr(body)
                    writes.append((body, bi, proj[-1]['name'], ex.rvalue(rv)))
    hand = [a for a in aggs if not a[0].name.startswith('<')]  # derive(Clone) copies fields
    for (body, bi, ops) in hand:
        n += 1
        key = body.name
        ok_time = ops[1][0] == 'call' and ops[1][1] == 'std::time::Instant::now'
        ok_freq = ops[2][0] == 'const' and ops[2][1] == 0
        if not ok_time:
            run.bad('C06-S1', key + '/birth', 'a CacheEntry is built in %s with a birth time that is not Instant::now()' % body.name, site='%s (%s)' % (body.name, body.loc(bi)))
        else:
            run.ok('C06-S1', key + '/birth', 'inserted_at = Instant::now()')
        if not ok_freq:
            run.bad('C08-S1', key + '/initial-count', 'a new CacheEntry starts with a hit counter other than 0 in %s' % body.name, site='%s (%s)' % (body.name, body.loc(bi)))
        else:
            run.ok('C08-S1', key + '/initial-count', 'frequency = 0')
    run.require('C06-S1', 'CacheEntry constructions', len(hand), 1)
    for (body, bi, fld, e) in writes:
        n += 1
        if fld == 'inserted_at':
            run.bad('C06-S1', body.name + '/birth-rewritten', 'inserted_at is overwritten in %s: a hit or update must not rejuvenate an entry' % body.name, site='%s (%s)' % (body.name, body.loc(bi)))
        else:
            e = strip_casts(e)
            good = e[0] == 'call' and e[1].endswith('::saturating_add') and e[2][1][0] == 'const' and e[2][1][1] == 1 and field_path(e[2][0])[1][-1:] == ['frequency']
            if body.name == INC_FN and good:
                run.ok('C08-S1', 'increment_frequency', 'frequency = frequency.saturating_add(1)')
            elif body.name == INC_FN:
                run.bad('C08-S1', 'increment_frequency/form', 'increment_frequency does not add exactly one (saturating) to the counter', site=body.name)
            else:
                run.bad('C08-S1', body.name + '/frequency-written', 'the hit counter is written outside increment_frequency in %s' % body.name, site=body.name)
    inc = ctx.core_fn(INC_FN)
    if inc is None or not any(b.name == INC_FN for (b, _, f, _) in writes if f == 'frequency'):
        run.bad('C08-S1', 'increment_frequency/fail-closed', 'fail-closed: CacheEntry::increment_frequency does not write the counter (or is missing): hits are not counted')
    # async tuples stored into the DashMap: (value, now_secs, 0)
    roles = Roles(ctx.prog)
    cnt = 0
    for body in core.bodies.values():
        for b, t in body.calls():
            if classify(t) == 'S+' and callee_name(t).startswith(N.DM):
                cnt += 1
                ex = Expr(body)
                v = ex.operand(t['args'][2])
                if v[0] == 'agg' and v[1] == 'tuple' and len(v[2]) == 3:
                    ts, fr = v[2][1], v[2][2]
                    if not roles._is_now_secs(ts):
                        run.bad('C06-S1', body.name + '/async-birth', 'the async store writes a birth time that is not the current whole-second clock', site='%s (%s)' % (body.name, body.loc(b)))
                    else:
                        run.ok('C06-S1', body.name + '/async-birth', 'timestamp = now (whole seconds)')
                    if not (fr[0] == 'const' and fr[1] == 0):
                        run.bad('C08-S1', body.name + '/async-initial-count', 'a new async entry starts with a hit counter other than 0', site='%s (%s)' % (body.name, body.loc(b)))
                    else:
                        run.ok('C08-S1', body.name + '/async-initial-count', 'frequency = 0')
                else:
                    run.bad('C06-S1', body.name + '/async-entry-shape', 'unrecognised value stored into the async map: %s' % show(v), site=body.name)
    run.require('C06-S1', 'async store insertions', cnt, 2)
    # nobody rewrites tuple field 1 of an async entry
    for body in core.bodies.values():
        for bi, bl in enumerate(body.blocks):
            for st in bl['stmts']:
                if st['k'] == 'assign':
                    proj = [e for e in (st['dst'].get('proj') or []) if e != 'deref']
                    if proj and isinstance(proj[-1], dict) and proj[-1].get('on') == 'tuple' and proj[-1].get('name') == '1' and _rooted_in_dashmap(body, st['dst']):
                        run.bad('C06-S1', body.name + '/async-birth-rewritten', 'the stored timestamp of an async entry is overwritten in %s' % body.name, site='%s (%s)' % (body.name, body.loc(bi)))
    return n


def check_lookup_by_key(run, ctx):
    """C01-P1: each lookup searches the store under the requested key and returns a clone of that entry's value"""
    C = Core(ctx)
    n = 0
    for flav, adt in FLAVOURS:
        get = C.method(adt, 'get')
        if get is None:
            run.bad('C01-P1', flav + '/fail-closed', 'fail-closed: %s::get not found' % adt)
            continue
        n += 1
        probs = []
        look = []
        somes = []
        for x in C.scope(get):
            ex = Expr(x)
            for b, t in x.calls():
                if classify(t) in ('Sget', 'Sgetmut'):
                    look.append((x, b, t, ex))
            for bi, bl in enumerate(x.blocks):
                if bl['cleanup']:
                    continue
                for st in bl['stmts']:
                    if st['k'] == 'assign' and 'agg' in st['rv'] and isinstance(st['rv']['agg'], dict) and st['rv']['agg'].get('adt') == N.OPTION and st['rv']['agg'].get('variant') == 'Some':
                        if parse(x.local_ty(st['dst']['l'])).text.startswith(N.OPTION + '<R>') or True:
                            somes.append((x, bi, ex.operand(st['rv']['ops'][0])))
        if len(look) < 1:
            probs.append('no store lookup')
        else:
            se = SpecEffects(ctx.prog, {})
            own = None
            for i in range(1, get.arg_count + 1):
                if get.local_ty(i) == '&str':
                    own = (get.id, i)
            for (x, b, t, ex) in look:
                kr = se.key_root(x, t['args'][1])
                if kr != own or own is None:
                    probs.append('the store is searched under %s, not under the requested key' % show(ex.operand(t['args'][1])))
            # every Some(..) built of the value type is a clone of the looked-up entry's value
            vals = [(xx, bi, e) for (xx, bi, e) in somes if e[0] == 'call' and e[1] == N.CLONE or True]
            good = 0
            for (xx, bi, e) in somes:
                e0 = strip_casts(e)
                if e0[0] == 'call' and e0[1] == N.CLONE:
                    root, names = field_path(strip_casts(e0[2][0]))
                    if root[0] == 'call' and root[1] in (N.HM + 'get', N.DM + 'get_mut', N.DM + 'get', N.HM + 'get_mut') and names[-1:] in (['value'], ['0']) and 'as:Some' in names:
                        good += 1
                        continue
                    probs.append('a returned value is cloned from %s, not from the looked-up entry' % show(e0[2][0]))
                elif e0[0] in ('phi', 'param') or (e0[0] == 'call' and e0[1] != N.CLONE):
                    # Some(local) where the local holds the clone (async: cached_value)
                    pass
            if good < 1 and flav != 'async':
                probs.append('no Some(clone of the looked-up value) found')
        if probs:
            run.bad('C01-P1', flav + '/lookup', '%s: %s' % (get.name, '; '.join(probs)), site=get.name, oracle='lookup by the requested key; value = clone of that entry')
        else:
            run.ok('C01-P1', flav, 'searched under the key parameter; returns a clone of the entry found')
    return n


def check_requeue_scenario(run, ctx, rule='C04-P3'):
    """C04-P3 (scenario form): when the key being stored is already in the store / queue, every storing path removes its
    old queue slot before appending it again - for every policy (a slot left behind for some policies makes the queue
    longer than the store, and a random or positional victim can then be a dead slot)"""
    C = Core(ctx)
    n = 0
    POSITION = 'core::iter::traits::iterator::Iterator::position'
    for flav, adt in FLAVOURS:
        for m in ('insert', 'insert_with_memory'):
            fn = C.method(adt, m)
            if fn is None:
                continue
            scope = C.scope(fn)
            # helpers called directly (is_already_key_inserted & co) are part of the operation
            extra = []
            for x in list(scope):
                for (blk, cb, how) in ctx.prog.call_edges(x):
                    if how == 'direct' and cb.crate is ctx.core and cb not in scope and cb not in extra:
                        extra.append(cb)
            present = []
            for x in scope + extra + [d for e_ in extra for d in ctx.core.descendants(e_)]:
                for b, t in x.calls():
                    if classify(t) == 'S?' or callee_name(t) == POSITION:
                        present.append((x.id, b))
            over = [(xid, bi) + x for (xid, bi), lst in C.cmp_sites(fn).items() for x in lst if x[0] == 'cmp:oversize']
            for p in range(6):
                a = {'policy': p, 'limit': 0, 'max_memory': 0, 'ttl': 0}
                orc = {s_: 1 for s_ in present}
                w = C.weigher(a, orc, root=fn, precise=True)
                sp = w.spec(fn)
                n += 1
                key = '%s/%s/%s' % (flav, m, POL[p])
                bad = False
                for n_, vs in sp.path_totals().items():
                    for v in vs:
                        d = _vec(v)
                        if d['Q>'] >= 1 and d['Qrem'] < 1:
                            bad = True
                if bad:
                    run.bad(rule, '%s/%s/old-slot-kept/%s' % (flav, m, POL[p]), '%s appends the key to the order queue while its old slot is still there (policy %s, key already cached): the queue '
                            'then holds the key twice' % (fn.name, POL[p]), site=fn.name, oracle='re-storing a cached key moves its single queue slot to the back')
                else:
                    run.ok(rule, key + '/requeue', 'old slot removed before the key is appended')
    return n
