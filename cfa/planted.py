"""Planted defects at fact level: on every run, for the main core rules, one comparison operator or one callee in the
*current* facts of cachelito-core is altered in memory (never on disk, never in /repo) and the rule is run again on
the altered program; it must report.  This shows on each run, against the tree being judged, that the rule is
not vacuous (its sites are still found and still discriminate), in addition to the instance floors.

The site to alter is found by the same semantic search the rule uses (comparison roles, effect kinds), so a
refactoring that keeps the rule green also keeps the plant findable."""
import copy
from .facts import Crate, callee_name
from .roles import Roles
from .report import Run
from . import names as N


def _ctx_with_crate(ctx, unit, crate2):
    c2 = _ctx_with_core(ctx, ctx.core)
    c2._crates[unit] = crate2
    return c2


def _clone_crate(ctx, unit, body_id, edit):
    """a Crate equal to ctx.crate(unit) except that edit(body_json) was applied to a deep copy of one body"""
    cr = ctx.crate(unit)
    js2 = dict(cr.js)
    bodies = dict(cr.js['bodies'])
    b2 = copy.deepcopy(bodies[body_id])
    edit(b2)
    bodies[body_id] = b2
    js2['bodies'] = bodies
    return Crate(js2, cr.file)


def _ctx_with_core(ctx, core2):
    from .context import Ctx
    c2 = Ctx.__new__(Ctx)
    c2.tier = ctx.tier
    c2.base, c2.meta = ctx.base, ctx.meta
    c2._crates = dict(ctx._crates)
    # make sure the fixture crates are loaded in the original so that they are shared, not re-read
    for u in ('fx_sync', 'fx_async'):
        c2._crates[u] = ctx.crate(u)
    c2._crates['cachelito_core'] = core2
    c2._prog = None
    c2._world = None
    c2._st_world = None
    c2.expect = ctx.expect
    c2.witness = ctx.witness
    return c2


def _clone_core(ctx, body_id, edit):
    """a Crate equal to ctx.core except that edit(body_json) was applied to a deep copy of one body"""
    js = ctx.core.js
    js2 = dict(js)
    bodies = dict(js['bodies'])
    b2 = copy.deepcopy(bodies[body_id])
    edit(b2)
    bodies[body_id] = b2
    js2['bodies'] = bodies
    return Crate(js2, ctx.core.file)


def find_cmp(ctx, roles_wanted, ops, within=None):
    """first (body, block, stmt) in cachelito-core whose ordered comparison has the given role pair (either order)"""
    R = Roles(ctx.prog)
    for body in sorted(ctx.core.bodies.values(), key=lambda b: b.id):
        if within and not within(body):
            continue
        if not any(st['k'] == 'assign' and 'bin' in st['rv'] and st['rv']['bin'] in ops for bl in body.blocks for st in bl['stmts']):
            continue
        for (bi, si, op, ra, rb, a, b, dst) in R.comparisons(body):
            if op in ops and ({ra, rb} == set(roles_wanted) or (None in roles_wanted and [r for r in roles_wanted if r][0] in (ra, rb))):
                return body, bi, si, op
    return None


STRICTNESS = {'Gt': 'Ge', 'Ge': 'Gt', 'Lt': 'Le', 'Le': 'Lt'}
ALL_OPS = tuple(STRICTNESS)


def flip_cmp(ctx, site, new_op=None):
    """default: toggle the strictness of the comparison (an off-by-one at the boundary whatever way the test is written)"""
    body, bi, si, op = site
    new_op = new_op or STRICTNESS[op]

    def edit(js):
        js['blocks'][bi]['stmts'][si]['rv']['bin'] = new_op
    return _ctx_with_core(ctx, _clone_core(ctx, body.id, edit))


def find_call(ctx, callee, within):
    for body in sorted(ctx.core.bodies.values(), key=lambda b: b.id):
        if not within(body):
            continue
        for bi, t in body.calls():
            if callee_name(t) == callee:
                return body, bi
    return None


def rename_call(ctx, site, new_last):
    """the call at `site` goes to the sibling method `new_last` of the same type instead"""
    body, bi = site

    def edit(js):
        c = js['blocks'][bi]['term']['callee']
        for k in ('path', 'id'):
            if c.get(k):
                c[k] = c[k].rsplit('::', 1)[0] + '::' + new_last
        for k in ('resolved', 'resolved_id'):
            if k in c:
                c[k] = None
    return _ctx_with_core(ctx, _clone_core(ctx, body.id, edit))


def expect_fires(run, rule_id, what, ctx2, rule_fn, *args):
    """run rule_fn on the altered context with a scratch Run; the main run fails closed if it stays silent"""
    if ctx2 is None:
        run.bad(rule_id, 'fail-closed/planted/%s' % what, 'fail-closed: the site for the planted defect "%s" was not found in cachelito-core; '
                'the rule no longer sees the construct it judges' % what, oracle='planted defect must be placeable')
        return
    scratch = Run(run.pid, run.tier, '')
    try:
        rule_fn(scratch, ctx2, *args)
    except Exception as e:  # a crash on the altered facts is also a detection failure
        run.bad(rule_id, 'fail-closed/planted/%s' % what, 'fail-closed: the rule crashed on the planted defect "%s": %r' % (what, e))
        return
    hits = list(scratch.violations)
    if hits:
        run.ok(rule_id, 'planted/%s' % what, 'planted defect reported (%d report(s), e.g. %s)' % (len(hits), hits[0]['key']))
    else:
        run.bad(rule_id, 'fail-closed/planted/%s' % what, 'fail-closed: the planted defect "%s" (altered in memory in the facts of this tree) was not reported; the rule is blind' % what,
                oracle='planted defect must be reported')


# ---- the plants -------------------------------------------------------------------------------------

def _in_adt(adt):
    return lambda b: (b.name.startswith(adt + '::') or ('<impl ' in b.name and adt in b.name)) or (b.impl_self or '').startswith(adt)


def plant_overflow_off_by_one(ctx):
    """sync global: `order.len() > limit` becomes `>=`"""
    s = find_cmp(ctx, ('LEN_QUEUE', 'LIMIT'), ALL_OPS, within=lambda b: N.GLOBAL in b.name)
    if s is None:
        return None
    return flip_cmp(ctx, s)


def plant_async_overflow_off_by_one(ctx):
    """async: `cache.len() >= limit` becomes `>`"""
    s = find_cmp(ctx, ('LEN_STORE', 'LIMIT'), ALL_OPS, within=lambda b: N.ASYNC in b.name)
    if s is None:
        return None
    return flip_cmp(ctx, s)


def plant_expiry_off_by_one(ctx):
    """`age >= ttl` becomes `age > ttl` in the sync entry"""
    s = find_cmp(ctx, ('AGE_SECS', None), ALL_OPS, within=lambda b: 'cache_entry' in b.name)
    if s is None:
        return None
    return flip_cmp(ctx, s)


def plant_oversize_off_by_one(ctx):
    """`size > max_memory` becomes `>=` in one flavour"""
    s = find_cmp(ctx, ('NEW_SIZE', 'MAX_MEM'), ALL_OPS)
    if s is None:
        return None
    return flip_cmp(ctx, s)


def plant_fifo_pops_newest(ctx):
    """one `pop_front` of the order queue becomes `pop_back`"""
    s = find_call(ctx, N.VD + 'pop_front', lambda b: True)
    if s is None:
        return None
    return rename_call(ctx, s, 'pop_back')


def plant_hit_counted_as_miss(ctx):
    """one `record_hit` of a lookup becomes `record_miss`"""
    HIT = 'cachelito_core::stats::CacheStats::record_hit'
    s = find_call(ctx, HIT, lambda b: b.name != HIT)
    if s is None:
        return None
    return rename_call(ctx, s, 'record_miss')


def plant_async_expiry_off_by_one(ctx):
    """`age >= ttl` becomes `age > ttl` in the async lookup"""
    s = find_cmp(ctx, ('AGE_SECS', 'TTL'), ALL_OPS, within=lambda b: N.ASYNC in b.name)
    if s is None:
        return None
    return flip_cmp(ctx, s)


def plant_lfu_picks_most_used(ctx):
    """the comparison of the LFU victim scan is reversed"""
    from .rules_core import Core
    from .roles import FLIP
    for grp, pol, body in Core(ctx).selectors():
        if pol != 'LFU':
            continue
        for bi, bl in enumerate(body.blocks):
            for si, st in enumerate(bl['stmts']):
                if st['k'] == 'assign' and 'bin' in st['rv'] and st['rv']['bin'] in FLIP:
                    return flip_cmp(ctx, (body, bi, si, st['rv']['bin']), FLIP[st['rv']['bin']])
    return None


def each_cmp(ctx, pred):
    """[(label, altered ctx)] - one per ordered comparison in cachelito-core whose role pair satisfies pred(ra, rb), with its
    strictness toggled.  Sites are found by role only (not by function name or operator), so the plant survives renames,
    extracted helpers and negated / swapped formulations."""
    R = Roles(ctx.prog)
    out = []
    for body in sorted(ctx.core.bodies.values(), key=lambda b: b.id):
        if not any(st['k'] == 'assign' and 'bin' in st['rv'] and st['rv']['bin'] in ALL_OPS for bl in body.blocks for st in bl['stmts']):
            continue
        for (bi, si, op, ra, rb, a, b, dst) in R.comparisons(body):
            if op in ALL_OPS and pred(ra, rb):
                out.append(('%s %s %s in %s' % (ra, op, rb, body.name.rsplit('::', 2)[-2] + '::' + body.name.rsplit('::', 1)[-1]), flip_cmp(ctx, (body, bi, si, op))))
    return out


def expect_each_fires(run, rule_id, what, plants, rule_fn, *args):
    if not plants:
        expect_fires(run, rule_id, what, None, rule_fn, *args)
    for label, c2 in plants:
        expect_fires(run, rule_id, '%s: %s' % (what, label), c2, rule_fn, *args)
