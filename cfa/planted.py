"""Planted defects at fact level: on every run, for the main core rules, one comparison operator or one callee in the
*current* facts of cachelito-core is altered in memory (never on disk, never in /repo) and the rule is run again on
the altered program; it must report.  This shows on each run, against the tree being judged, that the rule is
not vacuous (its sites are still found and still discriminate), in addition to the instance floors.

The site to alter is found by the same semantic search the rule uses (comparison roles, effect kinds), so a
refactoring that keeps the rule green also keeps the plant findable."""
import copy
import json
from .facts import Crate, callee_name
from .roles import Roles
from .report import Run
from . import names as N


def _ctx_with_crate(ctx, unit, crate2):
    c2 = _ctx_with_core(ctx, ctx.core)
    c2._crates[unit] = crate2
    return c2


def _clone_crate(ctx, unit, body_id, edit):
    """a Crate equal to ctx.crate(unit) except that edit(body_json) was applied to a deep copy of one body"""
    cr = ctx.crate(unit)
    js2 = dict(cr.js)
    bodies = dict(cr.js['bodies'])
    b2 = copy.deepcopy(bodies[body_id])
    edit(b2)
    bodies[body_id] = b2
    js2['bodies'] = bodies
    return Crate(js2, cr.file)


def _ctx_with_core(ctx, core2):
    from .context import Ctx
    c2 = Ctx.__new__(Ctx)
    c2.tier = ctx.tier
    c2.base, c2.meta = ctx.base, ctx.meta
    c2._crates = dict(ctx._crates)
    # make sure the fixture crates are loaded in the original so that they are shared, not re-read
    for u in ('fx_sync', 'fx_async'):
        c2._crates[u] = ctx.crate(u)
    c2._crates['cachelito_core'] = core2
    c2._prog = None
    c2._world = None
    c2._st_world = None
    c2.expect = ctx.expect
    c2.witness = ctx.witness
    return c2


def _clone_core(ctx, body_id, edit):
    """a Crate equal to ctx.core except that edit(body_json) was applied to a deep copy of one body"""
    js = ctx.core.js
    js2 = dict(js)
    bodies = dict(js['bodies'])
    b2 = copy.deepcopy(bodies[body_id])
    edit(b2)
    bodies[body_id] = b2
    js2['bodies'] = bodies
    return Crate(js2, ctx.core.file)


def find_cmp(ctx, roles_wanted, ops, within=None):
    """first (body, block, stmt) in cachelito-core whose ordered comparison has the given role pair (either order)"""
    R = Roles(ctx.prog)
    for body in sorted(ctx.core.bodies.values(), key=lambda b: b.id):
        if within and not within(body):
            continue
        if not any(st['k'] == 'assign' and 'bin' in st['rv'] and st['rv']['bin'] in ops for bl in body.blocks for st in bl['stmts']):
            continue
        for (bi, si, op, ra, rb, a, b, dst) in R.comparisons(body):
            if op in ops and ({ra, rb} == set(roles_wanted) or (None in roles_wanted and [r for r in roles_wanted if r][0] in (ra, rb))):
                return body, bi, si, op
    return None


STRICTNESS = {'Gt': 'Ge', 'Ge': 'Gt', 'Lt': 'Le', 'Le': 'Lt'}
ALL_OPS = tuple(STRICTNESS)


def flip_cmp(ctx, site, new_op=None):
    """default: toggle the strictness of the comparison (an off-by-one at the boundary whatever way the test is written)"""
    body, bi, si, op = site
    new_op = new_op or STRICTNESS[op]

    def edit(js):
        js['blocks'][bi]['stmts'][si]['rv']['bin'] = new_op
    return _ctx_with_core(ctx, _clone_core(ctx, body.id, edit))


def find_call(ctx, callee, within):
    for body in sorted(ctx.core.bodies.values(), key=lambda b: b.id):
        if not within(body):
            continue
        for bi, t in body.calls():
            if callee_name(t) == callee:
                return body, bi
    return None


def rename_call(ctx, site, new_last):
    """the call at `site` goes to the sibling method `new_last` of the same type instead"""
    body, bi = site

    def edit(js):
        c = js['blocks'][bi]['term']['callee']
        for k in ('path', 'id'):
            if c.get(k):
                c[k] = c[k].rsplit('::', 1)[0] + '::' + new_last
        for k in ('resolved', 'resolved_id'):
            if k in c:
                c[k] = None
    return _ctx_with_core(ctx, _clone_core(ctx, body.id, edit))


def expect_fires(run, rule_id, what, ctx2, rule_fn, *args):
    """run rule_fn on the altered context with a scratch Run; the main run fails closed if it stays silent"""
    if ctx2 is None:
        run.bad(rule_id, 'fail-closed/planted/%s' % what, 'fail-closed: the site for the planted defect "%s" was not found in cachelito-core; '
                'the rule no longer sees the construct it judges' % what, oracle='planted defect must be placeable')
        return
    scratch = Run(run.pid, run.tier, '')
    try:
        rule_fn(scratch, ctx2, *args)
    except Exception as e:  # a crash on the altered facts is also a detection failure
        run.bad(rule_id, 'fail-closed/planted/%s' % what, 'fail-closed: the rule crashed on the planted defect "%s": %r' % (what, e))
        return
    hits = list(scratch.violations)
    if hits:
        run.ok(rule_id, 'planted/%s' % what, 'planted defect reported (%d report(s), e.g. %s)' % (len(hits), hits[0]['key']))
    else:
        run.bad(rule_id, 'fail-closed/planted/%s' % what, 'fail-closed: the planted defect "%s" (altered in memory in the facts of this tree) was not reported; the rule is blind' % what,
                oracle='planted defect must be reported')


# ---- the plants -------------------------------------------------------------------------------------

def _in_adt(adt):
    return lambda b: (b.name.startswith(adt + '::') or ('<impl ' in b.name and adt in b.name)) or (b.impl_self or '').startswith(adt)


def plant_overflow_off_by_one(ctx):
    """sync global: `order.len() > limit` becomes `>=`"""
    s = find_cmp(ctx, ('LEN_QUEUE', 'LIMIT'), ALL_OPS, within=lambda b: N.GLOBAL in b.name)
    if s is None:
        return None
    return flip_cmp(ctx, s)


def plant_async_overflow_off_by_one(ctx):
    """async: `cache.len() >= limit` becomes `>`"""
    s = find_cmp(ctx, ('LEN_STORE', 'LIMIT'), ALL_OPS, within=lambda b: N.ASYNC in b.name)
    if s is None:
        return None
    return flip_cmp(ctx, s)


def plant_expiry_off_by_one(ctx):
    """`age >= ttl` becomes `age > ttl` in the sync entry"""
    s = find_cmp(ctx, ('AGE_SECS', None), ALL_OPS, within=lambda b: 'cache_entry' in b.name)
    if s is None:
        return None
    return flip_cmp(ctx, s)


def plant_oversize_off_by_one(ctx):
    """`size > max_memory` becomes `>=` in one flavour"""
    s = find_cmp(ctx, ('NEW_SIZE', 'MAX_MEM'), ALL_OPS)
    if s is None:
        return None
    return flip_cmp(ctx, s)


def plant_fifo_pops_newest(ctx):
    """one `pop_front` of the order queue becomes `pop_back`"""
    s = find_call(ctx, N.VD + 'pop_front', lambda b: True)
    if s is None:
        return None
    return rename_call(ctx, s, 'pop_back')


def plant_hit_counted_as_miss(ctx):
    """one `record_hit` of a lookup becomes `record_miss`"""
    HIT = 'cachelito_core::stats::CacheStats::record_hit'
    s = find_call(ctx, HIT, lambda b: b.name != HIT)
    if s is None:
        return None
    return rename_call(ctx, s, 'record_miss')


def plant_async_expiry_off_by_one(ctx):
    """`age >= ttl` becomes `age > ttl` in the async lookup"""
    s = find_cmp(ctx, ('AGE_SECS', 'TTL'), ALL_OPS, within=lambda b: N.ASYNC in b.name)
    if s is None:
        return None
    return flip_cmp(ctx, s)


def plant_lfu_picks_most_used(ctx):
    """the comparison of the LFU victim scan is reversed"""
    from .rules_core import Core
    from .roles import FLIP
    for grp, pol, body in Core(ctx).selectors():
        if pol != 'LFU':
            continue
        for bi, bl in enumerate(body.blocks):
            for si, st in enumerate(bl['stmts']):
                if st['k'] == 'assign' and 'bin' in st['rv'] and st['rv']['bin'] in FLIP:
                    return flip_cmp(ctx, (body, bi, si, st['rv']['bin']), FLIP[st['rv']['bin']])
    return None


def each_cmp(ctx, pred):
    """[(label, altered ctx)] - one per ordered comparison in cachelito-core whose role pair satisfies pred(ra, rb), with its
    strictness toggled.  Sites are found by role only (not by function name or operator), so the plant survives renames,
    extracted helpers and negated / swapped formulations."""
    R = Roles(ctx.prog)
    out = []
    for body in sorted(ctx.core.bodies.values(), key=lambda b: b.id):
        if not any(st['k'] == 'assign' and 'bin' in st['rv'] and st['rv']['bin'] in ALL_OPS for bl in body.blocks for st in bl['stmts']):
            continue
        for (bi, si, op, ra, rb, a, b, dst) in R.comparisons(body):
            if op in ALL_OPS and pred(ra, rb):
                out.append(('%s %s %s in %s' % (ra, op, rb, body.name.rsplit('::', 2)[-2] + '::' + body.name.rsplit('::', 1)[-1]), flip_cmp(ctx, (body, bi, si, op))))
    return out


def expect_each_fires(run, rule_id, what, plants, rule_fn, *args):
    if not plants:
        expect_fires(run, rule_id, what, None, rule_fn, *args)
    for label, c2 in plants:
        expect_fires(run, rule_id, '%s: %s' % (what, label), c2, rule_fn, *args)


# ---- plants in generated code (fixture corpus) -------------------------------------------------------

def _wrapper_bodies(ctx, name):
    unit = name.split('::')[0]
    cr = ctx.crate(unit)
    out = []
    for b in cr.named(name):
        for x in [b] + cr.descendants(b):
            r = ctx.role(x)
            if r and r.endswith(':wrapper'):
                out.append((unit, x))
    return out


def find_fixture_call(ctx, want, callee_pred):
    """(unit, body, block) of the first live call in a fixture wrapper whose expectations satisfy want(v) and whose callee name
    satisfies callee_pred; live = reachable once the scope test is folded (the sync macro emits both branches)"""
    from .spec import Spec
    for name in sorted(ctx.expect):
        v = ctx.expect[name]
        if not want(v):
            continue
        for unit, body in _wrapper_bodies(ctx, name):
            live = Spec(ctx.prog, body, {}).reachable_blocks()
            for bi, t in body.calls():
                if bi in live and callee_pred(callee_name(t)):
                    return unit, body, bi
    return None


def alter_fixture_call(ctx, site, new_last=None, drop=False):
    if site is None:
        return None
    unit, body, bi = site

    def edit(js):
        bl = js['blocks'][bi]
        if drop:
            t = bl['term']
            bl['term'] = {'k': 'goto', 'target': t['target'], 'span': t.get('span')}
        else:
            c = bl['term']['callee']
            for k in ('path', 'id'):
                if c.get(k):
                    c[k] = c[k].rsplit('::', 1)[0] + '::' + new_last
            for k in ('resolved', 'resolved_id'):
                if k in c:
                    c[k] = None
    return _ctx_with_crate(ctx, unit, _clone_crate(ctx, unit, body.id, edit))


def plant_result_stored_unconditionally(ctx):
    """one sync Result fixture stores through `insert` instead of `insert_result`"""
    s = find_fixture_call(ctx, lambda v: v['ret'].startswith('Result<') and not v.get('cache_if') and v['scope'] != 'Async', lambda cn: cn.endswith('::insert_result'))
    return alter_fixture_call(ctx, s, 'insert')


def plant_predicate_not_consulted(ctx, which):
    """the call of the cache_if / invalidate_on predicate of one fixture disappears"""
    def is_pred(cn, v):
        p = v.get(which) or ''
        return bool(p) and cn.endswith('::' + p.rsplit('::', 1)[-1]) and not cn.startswith('cachelito_core::')
    for name in sorted(ctx.expect):
        v = ctx.expect[name]
        if v.get(which):
            s = find_fixture_call(ctx, lambda x, v=v: x is v, lambda cn, v=v: is_pred(cn, v))
            if s is not None:
                return alter_fixture_call(ctx, s, drop=True)
    return None


def plant_lookup_dropped(ctx):
    """the cache lookup of one plain fixture wrapper disappears"""
    s = find_fixture_call(ctx, lambda v: not v.get('cache_if') and not v.get('invalidate_on'), lambda cn: cn.startswith('cachelito_core::') and cn.endswith('Cache::get'))
    return alter_fixture_call(ctx, s, drop=True)


def plant_memory_store_not_selected(ctx):
    """one fixture with max_memory stores through the plain `insert`"""
    s = find_fixture_call(ctx, lambda v: v.get('max_memory') is not None and not v['ret'].startswith('Result<') and not v.get('cache_if'), lambda cn: cn.endswith('::insert_with_memory'))
    return alter_fixture_call(ctx, s, 'insert')


def plant_lossy_key_template(ctx):
    """the default key is rendered with a precision (`{:.1?}`): the byte template of its format_args! is replaced"""
    for b in ctx.core.bodies.values():
        if b.js.get('impl_trait') == 'cachelito_core::keys::CacheableKey' and b.kind == 'assoc_fn':
            found = []

            def visit(o):
                if isinstance(o, dict):
                    if isinstance(o.get('const'), dict) and 'bytes' in o['const']:
                        found.append(o['const'])
                    for v in o.values():
                        visit(v)
                elif isinstance(o, list):
                    for v in o:
                        visit(v)
            visit(b.js['blocks'])
            if not found:
                return None

            def edit(js):
                def rep(o):
                    if isinstance(o, dict):
                        if isinstance(o.get('const'), dict) and 'bytes' in o['const']:
                            o['const']['bytes'] = [0xC5, 0, 0, 0, 0x10, 1, 0, 0]
                        for v in o.values():
                            rep(v)
                    elif isinstance(o, list):
                        for v in o:
                            rep(v)
                rep(js['blocks'])
            return _ctx_with_core(ctx, _clone_core(ctx, b.id, edit))
    return None


def plant_thread_scope_on_shared_storage(ctx):
    """the store field of ThreadLocalCache is no longer a thread-local key"""
    js = ctx.core.js
    if N.THREAD not in js['adts']:
        return None
    js2 = dict(js)
    adts = dict(js['adts'])
    a = copy.deepcopy(adts[N.THREAD])
    for f in a['variants'][0]['fields']:
        if f['name'] == 'cache':
            f['ty'] = f['ty'].replace('std::thread::local::LocalKey<core::cell::RefCell<', 'once_cell::sync::Lazy<lock_api::rwlock::RwLock<')
    adts[N.THREAD] = a
    js2['adts'] = adts
    return _ctx_with_core(ctx, Crate(js2, ctx.core.file))


def plant_event_lookup_reads_tag_table(ctx):
    """every read of `event_to_caches` outside `register` goes to `tag_to_caches` instead"""
    REGI = 'cachelito_core::invalidation::InvalidationRegistry'
    adt = ctx.core.adts.get(REGI)
    if adt is None:
        return None
    idx = {f['name']: i for i, f in enumerate(adt['variants'][0]['fields'])}
    if 'event_to_caches' not in idx or 'tag_to_caches' not in idx:
        return None
    js = ctx.core.js
    js2 = dict(js)
    bodies = dict(js['bodies'])
    changed = 0
    for bid, bj in js['bodies'].items():
        path = bj.get('path') or ''
        if not path.startswith(REGI + '::') or path.endswith('::register') or '::register::' in path or path.endswith('::clear') or '::new' in path:
            continue
        txt = json.dumps(bj)
        if '"event_to_caches"' not in txt:
            continue
        b2 = copy.deepcopy(bj)

        def rep(o):
            n = 0
            if isinstance(o, dict):
                if o.get('name') == 'event_to_caches' and 'f' in o:
                    o['name'] = 'tag_to_caches'
                    o['f'] = idx['tag_to_caches']
                    n += 1
                for v in o.values():
                    n += rep(v)
            elif isinstance(o, list):
                for v in o:
                    n += rep(v)
            return n
        changed += rep(b2['blocks'])
        bodies[bid] = b2
    if not changed:
        return None
    js2['bodies'] = bodies
    return _ctx_with_core(ctx, Crate(js2, ctx.core.file))


def plant_check_callback_keeps_queue_slot(ctx):
    """the queue removal of one generated conditional-invalidation callback disappears"""
    for kind_bodies in (ctx.prog.registered['check'],):
        for (cb, _, _) in kind_bodies:
            if cb.crate.name not in ('fx_sync', 'fx_async'):
                continue
            for x in [cb] + cb.crate.descendants(cb):
                for bi, t in x.calls():
                    if callee_name(t) in (N.VD + 'remove', N.VD + 'retain'):
                        return alter_fixture_call(ctx, (cb.crate.name, x, bi), drop=True)
    return None
