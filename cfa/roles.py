"""Engine K: roles of values in comparisons, and comparison normal forms."""
from .expr import Expr, walk, calls_in, strip_casts, field_path, show
from .types import parse, strip_refs
from .effects import is_store_map_ty, is_queue_ty
from . import names as N

EST = 'cachelito_core::memory_estimator::MemoryEstimator::estimate_memory'
LOCALKEY_WITH = 'std::thread::local::LocalKey::with'
FLIP = {'Lt': 'Gt', 'Le': 'Ge', 'Gt': 'Lt', 'Ge': 'Le'}
NEG = {'Lt': 'Ge', 'Le': 'Gt', 'Gt': 'Le', 'Ge': 'Lt'}
SYM = {'Lt': '<', 'Le': '<=', 'Gt': '>', 'Ge': '>='}


def _cfg_payload(e):
    """'limit' | 'max_memory' | 'ttl' | 'frequency_weight' if e is (<cache>.<name> as Some).0"""
    e = strip_casts(e)
    root, names = field_path(e)
    if len(names) >= 3 and names[-1] == '0' and names[-2] == 'as:Some' and names[-3] in ('limit', 'max_memory', 'ttl', 'frequency_weight'):
        # make sure the named field really is a field of a cache struct
        x = e
        while x[0] == 'field':
            if x[2] == names[-3] and x[3] in N.CACHE_ADTS:
                return names[-3]
            x = x[1]
    return None


def _self_ty(call):
    return (call[4] or {}).get('self_ty') or ''


class Roles:
    def __init__(self, prog):
        self.prog = prog
        self._ex = {}

    def ex(self, body):
        if body.id not in self._ex:
            self._ex[body.id] = Expr(body)
        return self._ex[body.id]

    def closure_returns(self, cid):
        """expressions a closure may return (one per definition of its _0)"""
        cb = self.prog.bodies.get(cid)
        if cb is None:
            return []
        ex = self.ex(cb)
        outs = []
        for d in cb.defs.get(0, []):
            outs.append(ex._def(d, 0))
        return cb, outs

    def _through_with(self, e):
        """if e is LocalKey::with(key, closure) return the closure's return expressions, else [e]"""
        e = strip_casts(e)
        if e[0] == 'call' and e[1] == LOCALKEY_WITH and e[4].get('closures'):
            out = []
            for cid in e[4]['closures']:
                r = self.closure_returns(cid)
                if r:
                    out.extend([(r[0], x) for x in r[1]])
            return out
        return None

    def contains_estimate(self, body, e, depth=0):
        """does the value derive from estimate_memory (directly or in a mapped closure)?"""
        if depth > 4:
            return False
        for c in calls_in(e):
            if c[1] == EST:
                return True
            for cid in (c[4] or {}).get('closures', []):
                r = self.closure_returns(cid)
                if r:
                    for x in r[1]:
                        if self.contains_estimate(r[0], x, depth + 1):
                            return True
        return False

    def estimate_subjects(self, body, e, depth=0):
        """what the estimate_memory calls inside e measure: {'value'} = the cached value (field `value` of a CacheEntry,
        field 0 of the async tuple, or a parameter); 'entry' = something else (e.g. the whole entry incl. bookkeeping)"""
        out = set()
        if depth > 4:
            return out
        for c in calls_in(e):
            if c[1] == EST and c[2]:
                root, names = field_path(strip_casts(c[2][0]))
                names = [x for x in names if not x.startswith('as:')]
                if names and names[-1] in ('value', '0'):
                    out.add('value')
                elif not names and root[0] == 'param' and depth == 0:
                    out.add('value')
                else:
                    out.add('entry')
            for cid in (c[4] or {}).get('closures', []):
                r = self.closure_returns(cid)
                if r:
                    for x in r[1]:
                        out |= self.estimate_subjects(r[0], x, depth + 1)
        return out

    def role(self, body, e, depth=0):
        """role name of expression e evaluated in body, or None"""
        e = strip_casts(e)
        if e[0] == 'field' and e[2] == '0' and e[1][0] == 'bin' and e[1][1].endswith('WithOverflow'):
            # checked arithmetic: (a op b).0
            inner = e[1]
            op = inner[1].replace('WithOverflow', '')
            ra = self.role(body, inner[2], depth)
            rb = self.role(body, inner[3], depth)
            if ra and rb:
                return '%s%s%s' % (ra, {'Add': '+', 'Sub': '-', 'Mul': '*'}.get(op, op), rb)
            return None
        if e[0] == 'bin' and e[1] in ('Add', 'Sub', 'Mul'):
            ra = self.role(body, e[2], depth)
            rb = self.role(body, e[3], depth)
            if ra and rb:
                return '%s%s%s' % (ra, {'Add': '+', 'Sub': '-', 'Mul': '*'}[e[1]], rb)
            return None
        p = _cfg_payload(e)
        if p:
            return {'limit': 'LIMIT', 'max_memory': 'MAX_MEM', 'ttl': 'TTL', 'frequency_weight': 'FW'}[p]
        if e[0] == 'const':
            return 'CONST(%r)' % (e[1],)
        if e[0] == 'call':
            cn = e[1]
            st = _self_ty(e)
            if cn == N.VD + 'len' and is_queue_ty(parse(st)):
                return 'LEN_QUEUE'
            if cn in (N.HM + 'len', N.DM + 'len') and is_store_map_ty(parse(st)):
                return 'LEN_STORE'
            if cn == 'core::time::Duration::as_secs':
                inner = e[2][0] if e[2] else None
                if inner and inner[0] == 'call' and inner[1] == 'std::time::Instant::elapsed':
                    root, names = field_path(inner[2][0])
                    if names and names[-1] == 'inserted_at':
                        return 'AGE_SECS'
                return 'NOW_SECS' if self._is_now_secs(e) else None
            if cn.endswith('::saturating_sub') and len(e[2]) == 2:
                a, b = e[2]
                if self._is_now_secs(a):
                    root, names = field_path(strip_casts(b))
                    if names and names[-1] == '1':
                        return 'AGE_SECS'
                return None
            if cn == EST:
                # whose size?  the parameter value (async) -> NEW_SIZE
                if e[2] and e[2][0][0] == 'param':
                    return 'NEW_SIZE'
                return 'SIZE_OF(%s)' % show(e[2][0]) if e[2] else None
            if cn == 'core::option::Option::unwrap_or' and len(e[2]) == 2:
                inner = e[2][0]
                if inner[0] == 'call' and inner[1] == 'core::option::Option::map' and inner[2] and inner[2][0][0] == 'call' \
                        and inner[2][0][1] in (N.HM + 'get', N.DM + 'get') and self.contains_estimate(body, inner):
                    return 'NEW_SIZE' if self.estimate_subjects(body, inner) == {'value'} else 'ENTRY_SIZE'
                return None
            if cn == 'core::iter::traits::iterator::Iterator::sum':
                if self.contains_estimate(body, e):
                    src = [c for c in calls_in(e) if c[1] in (N.HM + 'values', N.HM + 'iter', N.DM + 'iter', N.HM + 'values_mut')]
                    if src and is_store_map_ty(parse(_self_ty(src[0]))):
                        return 'MEM_SUM' if self.estimate_subjects(body, e) == {'value'} else 'ENTRY_SUM'
                return None
            if cn == LOCALKEY_WITH:
                rs = self._through_with(e) or []
                roles = {self.role(cb, x, depth + 1) for (cb, x) in rs}
                if len(roles) == 1:
                    return roles.pop()
                return None
        return None

    def _is_now_secs(self, e, depth=0):
        e = strip_casts(e)
        if e[0] == 'call' and e[1] == 'core::time::Duration::as_secs':
            for c in calls_in(e):
                if c[1] == 'std::time::SystemTime::now':
                    return True
        if e[0] == 'call' and depth < 3 and e[1].startswith('cachelito_core::'):
            # a local helper that returns the current whole-second clock
            for b in self.prog.by_name.get(e[1], []):
                if b.kind in ('fn', 'assoc_fn'):
                    ex = self.ex(b)
                    rets = [ex._def(d, 0) for d in b.defs.get(0, [])]
                    if rets and all(self._is_now_secs(r, depth + 1) for r in rets):
                        return True
        return False

    def comparisons(self, body):
        """[(block, stmt index, op, roleA, roleB, exprA, exprB, dst local)] for ordered comparisons"""
        ex = self.ex(body)
        out = []
        for bi, bl in enumerate(body.blocks):
            if bl['cleanup']:
                continue
            for si, st in enumerate(bl['stmts']):
                if st['k'] == 'assign' and 'bin' in st['rv'] and st['rv']['bin'] in FLIP:
                    rv = st['rv']
                    a = ex.operand(rv['a'])
                    b = ex.operand(rv['b'])
                    out.append((bi, si, rv['bin'], self.role(body, a), self.role(body, b), a, b, st['dst']['l'] if not st['dst'].get('proj') else None))
        return out


def normal_form(op, ra, rb, order):
    """normalise so that the role listed first in `order` is on the left; returns (left, symbol, right)"""
    if ra in order and rb in order and order.index(rb) < order.index(ra):
        ra, rb, op = rb, ra, FLIP[op]
    return ra, SYM[op], rb
