"""Property -> rule set dispatch."""
import traceback
from .report import Run, fail_closed
from .context import Ctx

ASSUME_COMMON = [
    'nightly rustc mir_built semantics (a Drop terminator ends a guard; no drop flags before elaboration)',
    'lock class abstraction: all caches\' locks of one kind are one class (sound over-approximation for lock order)',
    'user code (function bodies, cache_if / invalidate_on predicates, Clone, MemoryEstimator, Debug, key predicates) does not re-enter the cache it is called from',
    'the fixture corpus stands for the macro output; attribute combinations outside the corpus are not seen',
]


def _also_nostats(ctx, tier, run, fns):
    """thorough: repeat core-only rules on cachelito-core built without the `stats` feature"""
    if tier != 'thorough':
        return
    c2 = ctx.nostats()
    if c2 is None:
        run.bad('extract', 'fail-closed/u1n', 'fail-closed: no fact file for cachelito-core --no-default-features')
        return
    before = len(run.instances)
    for f in fns:
        f(run, c2)
    run.note('core rules repeated on cachelito-core --no-default-features: %d more instances' % (len(run.instances) - before))


# properties whose rules read cache updates off the facts: those facts are built with debug assertions on, so an update written inside
# debug_assert! (absent from release builds) has to be ruled out separately
DEBUG_ONLY_RULE = ('C01', 'C03', 'C04', 'C05', 'C06', 'C07', 'C08', 'C11', 'C12', 'C13', 'C15', 'C18', 'C20')

# properties whose rules specialise the code per policy / scope (the folding of `policy == X` assumes variant equality)
SPECIALISED = ('C03', 'C04', 'C05', 'C06', 'C07', 'C08', 'C14', 'C15')


def run(pid, tier):
    fn = globals().get('prop_' + pid)
    if fn is None:
        print('unknown property', pid)
        return 2
    try:
        ctx = Ctx(tier)
    except Exception as e:  # extraction failed: never silently green
        return fail_closed(pid, tier, '%s: %s' % (type(e).__name__, e))
    try:
        r = fn(ctx, tier)
        if pid in DEBUG_ONLY_RULE:
            from . import rules_x as X
            X.check_no_effects_in_debug_assert(r, ctx, '%s-D1' % pid)
        if pid in SPECIALISED:
            from . import rules_x as X
            X.check_enum_equality(r, ctx, '%s-T9' % pid)
    except Exception as e:
        traceback.print_exc()
        return fail_closed(pid, tier, 'analysis crashed: %s: %s' % (type(e).__name__, e))
    r.digest = ctx.meta['digest']
    r.units = ctx.describe_units()
    return r.finish()


def _selftest_guard(run, rule, what, fired):
    if not fired:
        run.bad(rule, 'fail-closed/selftest/%s' % what, 'fail-closed: the planted positive "%s" in /verif/selftest was not flagged; the rule is blind' % what,
                oracle='selftest positive must be flagged')
    else:
        run.ok(rule, 'selftest/%s' % what, 'planted positive flagged')


def prop_C17(ctx, tier):
    from . import rules_l as L
    run = Run('C17', tier,
              'Lock-order analysis over mir_built of cachelito-core and the generated fixture wrappers/callbacks: guard-carrying locals give may-held sets; '
              'every acquisition (guard or transient, incl. DashMap ops and Once/Lazy) with the classes held locally or by any caller gives an edge; '
              'the graph over blocking classes must be acyclic with no self edge (L1); nothing is acquired under a live DashMap reference (L2); user code is '
              'called with no cache lock held except a reviewed table (L3); registry locks are never taken under cache locks and Lazy initialisers acquire nothing (L4). '
              'Not decided: blocking inside user code; liveness beyond lock order.', ASSUME_COMMON)
    w = ctx.world
    edges, _ = L.check_lock_order(run, w)
    n2, _ = L.check_dashmap_discipline(run, w, namer=ctx.label)
    run.ok('C17-L2', 'all-blocking-acquisitions', '%d blocking acquisitions examined for a live DashMap reference' % n2)
    L.check_user_code(run, ctx, w)
    nw = L.check_wrapper_user_code(run, ctx, w)
    L.check_registration(run, ctx, w, edges)
    classes = sorted({c for e in edges for c in e if not c.startswith('INIT:')})
    run.exhaustive = {'lock_classes': classes, 'bodies': len(w.bodies)}
    run.require('C17-L1', 'cache lock classes', len([c for c in classes if c in ('STORE_RW', 'ORDER', 'STORE_DM')]), 3)
    run.require('C17-L1', 'registry lock classes', len([c for c in classes if c.startswith('REG.') or c == 'STATS_REG']), 7)
    run.require('C17-L1', 'acquisition events', sum(len(v) for v in edges.values()), 1000)
    run.require('C17-L3', 'wrapper user-code sites', nw, 300)
    if tier == 'thorough':
        w5 = ctx.u5_world
        gen = ctx.u5_generated()
        e5, _ = L.check_lock_order(run, w5, label='repo-own/')
        L.check_dashmap_discipline(run, w5, label='repo-own/')
        run.require('C17-L1', 'generated bodies among the repository\'s own tests and examples', len(gen), 500)
        run.exhaustive['repo_own_generated_bodies'] = len(gen)
    # selftest positives
    srun = Run('C17', tier, '')
    sw = ctx.st_world
    L.check_lock_order(srun, sw)
    L.check_dashmap_discipline(srun, sw)
    keys = {v['key'] for v in srun.violations}
    _selftest_guard(run, 'C17-L1', 'inversion_a/inversion_b cycle', 'C17:C17-L1:cycle/ORDER+STORE_RW' in keys)
    _selftest_guard(run, 'C17-L1', 'self_deadlock self edge', 'C17:C17-L1:self/ORDER' in keys)
    _selftest_guard(run, 'C17-L2', 'dm_ref_then_lock', any('selftest::dm_ref_then_lock' in k for k in keys))
    if any('selftest::dm_drop_then_lock' in k for k in keys):
        run.bad('C17-L2', 'fail-closed/selftest/negative', 'fail-closed: the negative twin dm_drop_then_lock was flagged; the held-set analysis is wrong')
    return run


def prop_C16(ctx, tier):
    from . import rules_l as L
    run = Run('C16', tier,
              'R1: every RefCell borrow/borrow_mut in cachelito-core and in generated thread-scope wrappers is checked against the RefCell guards that may be live '
              'locally or in any caller (held sets flow through calls and through closures passed to LocalKey::with); a conflicting re-borrow is a panic on every '
              'execution of that path. R2: explicit panic sites (unwrap/expect/index/division) on cache-operation paths are classified by the origin of their operand. '
              'R3: every library MemoryEstimator returns at least size_of::<Self>(), which is what makes the checked `estimate - size_of_val` of the wrapper estimators safe. '
              'Not decided: arithmetic overflow on absurd sizes; panics inside user code.', ASSUME_COMMON)
    w = ctx.world
    n, bad = L.check_reborrow(run, w)
    run.require('C16-R1', 'RefCell borrow sites', n, 8)
    if tier == 'thorough':
        n5, _ = L.check_reborrow(run, ctx.u5_world, label='repo-own/')
        run.require('C16-R1', 'RefCell borrow sites incl. repository tests/examples', n5, 20)
    srun = Run('C16', tier, '')
    L.check_reborrow(srun, ctx.st_world)
    keys = {v['key'] for v in srun.violations}
    _selftest_guard(run, 'C16-R1', 'reborrow via helper', any('selftest::reborrow_helper' in k for k in keys))
    if any('reborrow_helper2' in k for k in keys):
        run.bad('C16-R1', 'fail-closed/selftest/negative', 'fail-closed: the negative twin no_reborrow was flagged')
    from . import rules_x as X
    X.check_panic_sites(run, ctx)
    from . import rules_est as EST
    EST.check_estimator_lower_bound(run, ctx)
    return run


def prop_C20(ctx, tier):
    from . import rules_l as L
    run = Run('C20', tier,
              'L1: in every generated async wrapper (coroutine body in mir_built, explicit Yield terminators) the may-held set of guard-carrying locals is empty at '
              'every Yield. W1: every cache store in the coroutine is dominated by the resumption that delivers the body\'s ready value; before the first Yield only '
              'registration and the lookup touch the cache. T1: compile-time witness that the future is Send (twin holding a guard across await must fail).', ASSUME_COMMON)
    w = ctx.world
    fx = ctx.fx_async
    n, bad = L.check_yield(run, w, only=lambda b: b.crate is fx, namer=ctx.label)
    run.require('C20-L1', 'yield points in generated async wrappers', n, 100)
    if tier == 'thorough':
        gen = ctx.u5_generated()
        n5, _ = L.check_yield(run, ctx.u5_world, label='repo-own/', only=lambda b: b.id in gen)
        run.require('C20-L1', 'yield points in the repository\'s own async decorated functions', n5, 50)
    srun = Run('C20', tier, '')
    L.check_yield(srun, ctx.st_world)
    keys = {v['key'] for v in srun.violations}
    _selftest_guard(run, 'C20-L1', 'guard_across_await', any('guard_across_await' in k for k in keys))
    if any('guard_before_await' in k for k in keys):
        run.bad('C20-L1', 'fail-closed/selftest/negative', 'fail-closed: negative twin guard_before_await was flagged')
    from . import rules_w as W
    W.check_async_effect_order(run, ctx)
    W.check_send_witness(run, ctx)
    return run


def prop_C18(ctx, tier):
    from . import rules_l as L
    run = Run('C18', tier,
              'M1: in the global and async caches and in every generated invalidation callback, a store key-removal (remove/clear) that is followed on some path by a '
              'queue removal must lie with it inside one queue critical section (same queue guard local must-held at both, or the queue is an exclusive &mut parameter). '
              'The opposite order and insertions can only leave tolerated orphans and are not demanded. P1: victim loops and selectors skip queue keys absent from the store. '
              'Not decided: that each concurrent call returns its own value; behaviour after quiescence as an execution.', ASSUME_COMMON)
    prog = ctx.prog
    bodies = [b for b in prog.bodies.values()]
    n, bad = L.check_atomic_removal(run, prog, bodies, namer=ctx.label)
    run.require('C18-M1', 'store-removal/queue-removal pairs', n, 20)
    if tier == 'thorough':
        gen = ctx.u5_generated()
        p5 = ctx.u5_prog
        b5 = [b for b in p5.bodies.values() if b.id in gen]
        n5, _ = L.check_atomic_removal(run, p5, b5, label='repo-own/', namer=ctx.label)
        run.require('C18-M1', 'pairs in the repository\'s own generated callbacks', n5, 50)
    from .program import Program
    sprog = Program([ctx.selftest])
    srun = Run('C18', tier, '')
    L.check_atomic_removal(srun, sprog, list(sprog.bodies.values()))
    keys = {v['key'] for v in srun.violations}
    _selftest_guard(run, 'C18-M1', 'split_removal', any('selftest::split_removal' in k for k in keys))
    _selftest_guard(run, 'C18-M1', 'split_clear', any('selftest::split_clear' in k for k in keys))
    if any('atomic_removal' in k for k in keys):
        run.bad('C18-M1', 'fail-closed/selftest/negative', 'fail-closed: negative twin atomic_removal was flagged')
    nclr = L.check_clear_is_complete(run, prog, [b for b in bodies if b.crate is ctx.core], namer=ctx.label)
    run.require('C18-M4', 'library functions that empty a cache', nclr, 1)
    from . import rules_core as K
    K.check_orphan_tolerance(run, ctx, 'C18-P1')
    L.check_probe_under_queue_lock(run, ctx, 'C18-M5')
    nm6 = K.check_lookup_purge_pairing_free(run, ctx, 'C18-M6')
    run.require('C18-M6', 'lookup specialisations', nm6, 36)
    # the bound after quiescence rests on the queue length being what the sync global overflow test re-establishes (C04-K1)
    scratch = Run('C18', tier, '')
    K.check_overflow_form(scratch, ctx)
    for v in scratch.violations:
        if 'counts-the-store' in v['key']:
            run.bad('C04-K1', v['key'].split(':', 2)[2], v['what'], site=v.get('site'), oracle=v.get('oracle'))
    run.ok('C04-K1', 'global/overflow-test-on-the-queue', 'judged with C04-K1') if not any('counts-the-store' in v['key'] for v in scratch.violations) else None
    L.check_no_try_locks(run, ctx.world, 'C18-M2')
    L.check_no_lock_release_inside(run, ctx.world, 'C18-M3')
    return run


def prop_C15(ctx, tier):
    from . import rules_core as K
    from . import rules_shape as S
    from . import rules_w as W
    run = Run('C15', tier,
              'E1/E2: for the three lookups x 48 configuration specialisations x {absent, fresh, expired} scenarios (oracles fix the store-lookup and expiry-test outcomes; '
              'path-sensitive abstract exploration of mir_built) every path records exactly one of hit/miss, and a hit exactly when a value is returned. '
              'S1: counters are atomic fetch_add(1) on the same-named field, reset stores 0 to both. S2: registry reset/get touch only the looked-up entry. '
              'W1: generated code registers the stats static it also passes to the cache, under the name attribute or the function name. Not decided: equality with a model\'s counts over histories.',
              ASSUME_COMMON)
    n, anchors = K.check_lookup_stats(run, ctx)
    from . import planted as PL
    PL.expect_fires(run, 'C15-P1', 'a hit counted as a miss', PL.plant_hit_counted_as_miss(ctx), K.check_lookup_stats)
    K.check_lookup_stats_free(run, ctx)
    run.require('C15-E1', 'lookup entry points', len([a for a in anchors.values() if a]), 3)
    run.require('C15-E1', 'scenario outcomes', n, 300)
    run.exhaustive = {'flavours': 3, 'policies': 6, 'bound presence': 8, 'scenarios': ['absent', 'fresh', 'expired(ttl=Some)']}
    S.check_stats_shapes(run, ctx)
    S.check_registry_in_place(run, ctx, 'C15-S3', ('cachelito_core::stats_registry::',), 2)
    W.check_stats_registration(run, ctx)
    W.check_wrapper_no_direct_stats(run, ctx)
    from . import rules_l as L
    L.check_no_try_locks(run, ctx.world, 'C15-E3', only=lambda b: b.crate is ctx.core)
    return run


def prop_C06(ctx, tier):
    from . import rules_core as K
    run = Run('C06', tier,
              'K1: the expiry test normalises to AGE_SECS >= TTL on whole seconds (sync is_expired; async lookup). E1/P1: for 3 lookups x 48 specialisations, with oracles fixing '
              'the lookup and the expiry test: expired => nothing returned, key purged from store and queue on every path, no hit effects; fresh => value returned, nothing removed; '
              'absent => no effect. S1: birth time is written only when an entry is stored (Instant::now / whole-second clock). Not decided: wall-clock behaviour.', ASSUME_COMMON)
    K.check_expiry_form(run, ctx)
    from . import planted as PL
    PL.expect_each_fires(run, 'C06-K1', 'expiry test off by one', PL.each_cmp(ctx, lambda ra, rb: 'AGE_SECS' in (ra, rb)), K.check_expiry_form)
    n, anchors = K.check_lookup_expiry(run, ctx)
    run.require('C06-E1', 'lookup entry points', len([a for a in anchors.values() if a]), 3)
    run.require('C06-E1', 'expiry test sites', sum(a['expiry'] for a in anchors.values() if a), 3)
    run.require('C06-E1', 'scenario outcomes', n, 300)
    K.check_frequency_shapes(run, ctx)
    _also_nostats(ctx, tier, run, [K.check_expiry_form, K.check_lookup_expiry, K.check_frequency_shapes])
    run.exhaustive = {'flavours': 3, 'policies': 6, 'bound presence': 8}
    return run


def prop_C07(ctx, tier):
    from . import rules_core as K
    from . import rules_shape as S
    run = Run('C07', tier,
              'S1: queue orientation table (store end, touch end, victim end) agrees across 3 flavours x {limit, memory} paths. E1: for 3 lookups x 48 specialisations, on a fresh hit: '
              'LRU with a bound re-queues the key on every path (conditional only on membership re-checks), FIFO has no queue effect. P1: FIFO/LRU victim loops skip orphans. '
              'Not decided: the victim as a function of a history (induction on paper).', ASSUME_COMMON)
    n, anchors = K.check_hit_effects(run, ctx, 'C07')
    run.require('C07-E1', 'lookup entry points', len([a for a in anchors.values() if a]), 3)
    run.require('C07-E1', 'LRU/FIFO hit outcomes', n, 40)
    S.check_orientation(run, ctx)
    from . import planted as PL
    PL.expect_fires(run, 'C07-S1', 'a victim popped from the back of the queue', PL.plant_fifo_pops_newest(ctx), S.check_orientation)
    S.check_order_preserving(run, ctx, 'C07-S2')
    K.check_orphan_tolerance(run, ctx, 'C07-P1')
    K.check_store_pairing(run, ctx, 'C07-S3')
    nq = K.check_newcomer_queued_before_victims(run, ctx, 'C07-S4')
    S.check_positional_removals(run, ctx, 'C07-S5')
    run.require('C07-S4', 'store paths with a victim selection', nq, 12)
    _also_nostats(ctx, tier, run, [lambda r, c: K.check_hit_effects(r, c, 'C07'), S.check_orientation])
    run.violations = [v for v in run.violations if v['rule'].startswith('C07')]
    return run


def prop_C08(ctx, tier):
    from . import rules_core as K
    run = Run('C08', tier,
              'E1: on a fresh hit with a bound, LFU/ARC/TLRU increment the requested entry\'s counter exactly once on every path and ARC/TLRU re-queue the key (3 lookups x 48 specialisations). '
              'S1: new entries start at 0, increment adds one. K1: the six selectors scan the whole queue and replace on </<=. K2: score = documented product of factors. '
              'K3/K4: recency polarity and exponent judged where residents compete (eviction before insertion); masked where the zero-score newcomer always wins. '
              'Not decided: float ties, the age interval.', ASSUME_COMMON)
    n, anchors = K.check_hit_effects(run, ctx, 'C08')
    run.require('C08-E1', 'LFU/ARC/TLRU hit outcomes', n, 60)
    K.check_selectors(run, ctx)
    from . import planted as PL
    PL.expect_fires(run, 'C08-F1', 'LFU scan comparison reversed', PL.plant_lfu_picks_most_used(ctx), K.check_selectors)
    K.check_frequency_shapes(run, ctx)
    from . import rules_l as L
    L.check_no_try_locks(run, ctx.world, 'C08-E2', only=lambda b: b.crate is ctx.core)
    _also_nostats(ctx, tier, run, [lambda r, c: K.check_hit_effects(r, c, 'C08'), K.check_selectors, K.check_frequency_shapes])
    run.violations = [v for v in run.violations if v['rule'].startswith('C08')]
    return run


def prop_C04(ctx, tier):
    from . import rules_core as K
    from . import rules_shape as S
    run = Run('C04', tier,
              'K1: the overflow test is `len > limit` where the new entry is already stored and `len >= limit` where it is not (placement computed by dominance). '
              'E1: with a limit the test lies on every storing path. P1/P2: per flavour x policy, under the overflow oracle, every path removes at most one store entry and removes '
              'it from store and queue together (orphan paths judged separately). P4: a store leaves the key in store and queue together. K2: the random victim is a position of the '
              'queue it is removed from. P3: re-stored keys lose their old queue slot under every policy (structural and scenario form). E2: an own-key replacement precedes the overflow '
              'test. P5: the key removed from the store is the key removed from the queue. P1 also: an overflow with a victim available removes one. Not decided: the numeric bound over histories (induction on paper).', ASSUME_COMMON)
    K.check_overflow_form(run, ctx)
    from . import planted as PL
    PL.expect_each_fires(run, 'C04-K1', 'overflow test off by one', PL.each_cmp(ctx, lambda ra, rb: 'LIMIT' in (ra, rb) and ({ra, rb} & {'LEN_QUEUE', 'LEN_STORE'})), K.check_overflow_form)
    n, anchors = K.check_overflow_test_on_every_path(run, ctx)
    run.require('C04-E1', 'store entry points', len([a for a in anchors.values() if a]), 6)
    n2, a2 = K.check_one_victim(run, ctx)
    run.require('C04-P1', 'limit-eviction routines', len([a for a in a2.values() if a]), 3)
    run.require('C04-P1', 'eviction outcomes', n2, 36)
    K.check_store_pairing(run, ctx)
    K.check_replacement_before_overflow_test(run, ctx)
    K.check_lookup_expiry(run, ctx)  # expired purge leaves both (P2)
    S.check_random_victim(run, ctx)
    S.check_queue_dedupe(run, ctx)
    K.check_requeue_scenario(run, ctx, 'C04-P3')
    S.check_positional_removals(run, ctx, 'C04-P6')
    S.check_victim_key_identity(run, ctx, 'C04-P5')
    _also_nostats(ctx, tier, run, [K.check_overflow_form, K.check_overflow_test_on_every_path, K.check_one_victim, K.check_store_pairing,
                                    K.check_replacement_before_overflow_test, S.check_random_victim, S.check_queue_dedupe])
    run.violations = [v for v in run.violations if v['rule'].startswith('C04') or v['rule'] == 'C06-P1']
    run.exhaustive = {'flavours': 3, 'policies': 6, 'bound presence': 8}
    return run


def prop_C05(ctx, tier):
    from . import rules_core as K
    from . import rules_shape as S
    from . import rules_w as W
    run = Run('C05', tier,
              'K1: oversize test is NEW_SIZE > MAX_MEM and its true edge leaves no net entry and never enters the eviction loop. K2: the fit test is MEM_SUM <= MAX_MEM where the new entry is '
              'already stored, MEM_SUM+NEW_SIZE <= MAX_MEM where it is not; under the "fits" oracle nothing is evicted. K3: the sum ranges over all stored values. P1: every loop iteration '
              'removes exactly one victim (the same key) from store and queue, and an iteration that removed nothing leaves the loop. E2: an own-key replacement precedes the fit test. S1: estimator impls count capacity and recurse into every component. S2: each estimator impl, normalised to a polynomial over size_of / capacity / recursive estimates, equals the reviewed formula (inline size + owned heap capacity). '
              'W1: max_memory selects the memory-aware store. Not decided: numeric totals.', ASSUME_COMMON)
    K.check_memory_forms(run, ctx)
    from . import planted as PL
    PL.expect_each_fires(run, 'C05-K1', 'oversize test off by one', PL.each_cmp(ctx, lambda ra, rb: {ra, rb} == {'NEW_SIZE', 'MAX_MEM'}), K.check_memory_forms)
    PL.expect_each_fires(run, 'C05-K2', 'fit test off by one', PL.each_cmp(ctx, lambda ra, rb: 'MAX_MEM' in (ra, rb) and any(r and r.startswith('MEM_SUM') for r in (ra, rb))), K.check_memory_forms)
    K.check_replacement_before_fit_test(run, ctx)
    K.check_memory_loop(run, ctx)
    S.check_estimators(run, ctx)
    from . import rules_est as EST
    EST.check_estimator_forms(run, ctx)
    S.check_victim_key_identity(run, ctx, 'C05-P2')
    _also_nostats(ctx, tier, run, [K.check_memory_forms, K.check_memory_loop, S.check_estimators])
    W.check_memory_store_selected(run, ctx)
    return run


def prop_C01(ctx, tier):
    from . import rules_core as K
    from . import rules_w as W
    from . import rules_shape as S
    run = Run('C01', tier,
              'W1: in every fixture wrapper the lookup and every store use the same key value, a hit returns the looked-up payload, any other return is the body\'s result, which is also what '
              'is stored. P1: the three lookups search under the requested key and return a clone of that entry\'s value. P2: every non-oversize store path of the six store functions '
              'inserts (key, value), what is stored is an entry freshly built from the value parameter, and an oversize value still drops the superseded entry (P3) - the store overwrites. W2: store statics are owned by the decorated function. Not decided: equality of values over histories.', ASSUME_COMMON)
    n = W.check_wrapper_dataflow(run, ctx)
    run.require('C01-W1', 'fixture wrappers', n, 300)
    from . import planted as PL
    PL.expect_fires(run, 'C01-W1', 'the lookup of a fixture wrapper is dropped', PL.plant_lookup_dropped(ctx), W.check_wrapper_dataflow)
    K.check_store_value_identity(run, ctx, 'C01-P2')
    K.check_oversize_drops_old_entry(run, ctx, 'C01-P3')
    n2, anchors = K.check_store_overwrites(run, ctx, 'C01-P2')
    run.require('C01-P2', 'store entry points', len([a for a in anchors.values() if a]), 6)
    K.check_lookup_by_key(run, ctx)
    if tier == 'thorough':
        W.check_repo_wrappers(run, ctx, ('C01',))
    W.check_wrapper_config(run, ctx, rules=('C14',))
    run.violations = [v for v in run.violations if not v['rule'].startswith('C14') or 'belongs to' in v['what']]
    for v in run.violations:
        if v['rule'].startswith('C14'):
            v['rule'] = 'C01-W2'
    return run


def prop_C02(ctx, tier):
    from . import rules_w as W
    from . import rules_shape as S
    run = Run('C02', tier,
              'W1: in every fixture the key is built from exactly one part per parameter (receiver first, in order), each rendered through CacheableKey::to_cache_key (sync) or Debug (async), '
              'joined with a constant separator. W2: the separator is non-empty and cannot occur unquoted in a Debug rendering. T1: the default key is format!("{:?}", self). '
              'T2: impl table (informational). Trusted, not checked: injectivity of std Debug.', ASSUME_COMMON)
    n = W.check_key_builder(run, ctx)
    run.require('C02-W1', 'fixture wrappers', n, 300)
    if tier == 'thorough':
        W.check_repo_wrappers(run, ctx, ('C02',))
    S.check_key_traits(run, ctx)
    from . import planted as PL
    PL.expect_fires(run, 'C02-T1', 'the default key rendered with a precision', PL.plant_lossy_key_template(ctx), S.check_key_traits)
    return run


def prop_C03(ctx, tier):
    from . import rules_core as K
    from . import rules_w as W
    run = Run('C03', tier,
              'W1/W2: scenario table per fixture (oracles fix the lookup result and predicate verdicts): a hit returns without running the body or storing; a miss runs the body exactly once '
              'and, for plain types without cache_if, stores exactly once. E1: with no limit/max_memory/ttl no store removal is reachable from any lookup or store (54 specialisations). '
              'Not decided: the concurrent-miss clause.', ASSUME_COMMON)
    n, fams = W.check_wrapper_flow(run, ctx, rules=('C03',))
    run.require('C03-W1', 'scenario outcomes', n, 600)
    from . import planted as PL
    PL.expect_fires(run, 'C03-W1', 'the lookup of a fixture wrapper is dropped', PL.plant_lookup_dropped(ctx), lambda r, c: W.check_wrapper_flow(r, c, rules=('C03',)))
    if tier == 'thorough':
        nw = W.check_repo_wrappers(run, ctx, ('C03',))
        run.require('C03-W1', 'repository-own decorated functions', nw, 200)
    K.check_lookup_removes_nothing_unbounded(run, ctx)
    n2, a2 = K.check_store_unbounded(run, ctx)
    run.require('C03-E1', 'unbounded store specialisations', n2, 36)
    from . import rules_l as L
    L.check_no_lock_release_inside(run, ctx.world, 'C03-L1', only=lambda b: b.crate is ctx.core)
    return run


def prop_C09(ctx, tier):
    from . import rules_w as W
    from . import rules_shape as S
    run = Run('C09', tier,
              'W1: for every fixture whose *resolved* return type is core::result::Result and that has no cache_if, the generated store is insert_result* (sync) or is taken only on the true '
              'edge of is_ok() (async; scenario table with an is_ok oracle). S1: the four core insert_result* store only in the Ok arm and store Ok(payload.clone()).', ASSUME_COMMON)
    n, fams = W.check_wrapper_flow(run, ctx, rules=('C09',))
    run.require('C09-W1', 'Result-family fixtures', fams.get('R', 0), 30)
    from . import planted as PL
    PL.expect_fires(run, 'C09-W1', 'a sync Result fixture stores through insert', PL.plant_result_stored_unconditionally(ctx), lambda r, c: W.check_wrapper_flow(r, c, rules=('C09',)))
    W.check_async_effect_order(run, ctx, 'C09-W2')
    S.check_result_store(run, ctx)
    return run


def prop_C10(ctx, tier):
    from . import rules_w as W
    run = Run('C10', tier,
              'W1: for every fixture with cache_if: the named predicate (resolved callee) is consulted exactly once per body execution and never on a hit, with (key, result); the store happens '
              'exactly when it returns true; for sync Result functions the guarded store is the Ok-only one. Scenario table over found x keep (x stale).', ASSUME_COMMON)
    n, fams = W.check_wrapper_flow(run, ctx, rules=('C10',))
    run.require('C10-W1', 'cache_if fixtures', fams.get('P', 0), 40)
    from . import planted as PL
    PL.expect_fires(run, 'C10-W1', 'the cache_if predicate of a fixture is not consulted', PL.plant_predicate_not_consulted(ctx, 'cache_if'), lambda r, c: W.check_wrapper_flow(r, c, rules=('C10',)))
    if tier == 'thorough':
        W.check_repo_wrappers(run, ctx, ('C10',))
    W.check_wrapper_dataflow(run, ctx, 'C10-W1')
    run.violations = [v for v in run.violations if 'cache_if' in v['what'] or v['rule'] != 'C10-W1' or 'predicate' in v['key'] or 'result-with' in v['key']]
    return run


def prop_C11(ctx, tier):
    from . import rules_w as W
    from . import rules_core as K
    run = Run('C11', tier,
              'W1: for every fixture with invalidate_on: the named check is consulted exactly once per found entry with (key, cached value); the cached value is returned only when it says false; '
              'when it says true the body runs and the result is stored. P1: the store overwrites the existing key in all three flavours (every store path inserts).', ASSUME_COMMON)
    n, fams = W.check_wrapper_flow(run, ctx, rules=('C11',))
    run.require('C11-W1', 'invalidate_on fixtures', fams.get('I', 0), 20)
    from . import planted as PL
    PL.expect_fires(run, 'C11-W1', 'the invalidate_on check of a fixture is not consulted', PL.plant_predicate_not_consulted(ctx, 'invalidate_on'), lambda r, c: W.check_wrapper_flow(r, c, rules=('C11',)))
    if tier == 'thorough':
        W.check_repo_wrappers(run, ctx, ('C11',))
    W.check_wrapper_dataflow(run, ctx, 'C11-W1')
    run.violations = [v for v in run.violations if 'invalidate_on' in v['what'] or 'check' in v['key'] or 'stale' in v['key'] or 'fresh' in v['key'] or 'refresh' in v['key']]
    K.check_store_overwrites(run, ctx, 'C11-P1')
    K.check_store_value_identity(run, ctx, 'C11-P1')
    K.check_oversize_drops_old_entry(run, ctx, 'C11-P2')
    return run


def prop_C12(ctx, tier):
    from . import rules_w as W
    from . import rules_shape as S
    run = Run('C12', tier,
              'S1: register files tags/events/dependencies into their own tables and invalidate_by_* read the same table; Metadata::new keeps argument order. S2: every looked-up clear callback is '
              'invoked and counted once; invalidate_cache returns true exactly when it ran one. W1: every fixture with group attributes registers (name, Metadata(tags, events, deps)) and the '
              'clear callback under the name attribute or the function name inside a Once that dominates the lookup. W2: the clear callback empties store and queue of its own function only.',
              ASSUME_COMMON)
    S.check_registry_tables(run, ctx)
    from . import planted as PL
    PL.expect_fires(run, 'C12-S1', 'invalidate_by_event reads the tag table', PL.plant_event_lookup_reads_tag_table(ctx), S.check_registry_tables)
    S.check_registry_counts(run, ctx, 'C12-S4')
    S.check_registry_in_place(run, ctx, 'C12-S3', ('cachelito_core::invalidation::InvalidationRegistry::',), 15)
    n = W.check_registration(run, ctx, rules=('C12',))
    run.require('C12-W1', 'global/async fixtures', n, 200)
    n2 = W.check_callbacks(run, ctx, rules=('C12',))
    run.require('C12-W2', 'registered callbacks', n2, 300)
    return run


def prop_C13(ctx, tier):
    from . import rules_w as W
    from . import rules_shape as S
    run = Run('C13', tier,
              'W1: every generated conditional callback collects the store keys for which the key predicate (called once, verdict unchanged) holds and removes exactly those from store and '
              'queue (position(== key)). W2: callbacks touch only statics of the function they were registered for. S1: invalidate_with routes the predicate to the named callback only; '
              'invalidate_all_with passes each callback a closure applying the predicate to that cache\'s own name. Later eviction behaviour follows from C04 invariants (not decided here).',
              ASSUME_COMMON)
    S.check_registry_routing(run, ctx)
    S.check_order_preserving(run, ctx, 'C13-W3')
    S.check_positional_removals(run, ctx, 'C13-W4')
    S.check_registry_counts(run, ctx, 'C13-S2')
    n = W.check_callbacks(run, ctx, rules=('C13',))
    from . import planted as PL
    PL.expect_fires(run, 'C13-W1', 'a conditional callback keeps the queue slot of a removed key', PL.plant_check_callback_keeps_queue_slot(ctx), lambda r, c: W.check_callbacks(r, c, rules=('C13',)))
    run.require('C13-W1', 'registered callbacks', n, 300)
    return run


def prop_C14(ctx, tier):
    from . import rules_w as W
    from . import rules_shape as S
    run = Run('C14', tier,
              'T1: ThreadLocalCache can only be built on &\'static LocalKey<RefCell<..>> and GlobalCache on &\'static Lazy<RwLock|Mutex<..>> (field types + compile-fail witnesses with compiling '
              'twins). W1: in every sync fixture the scope attribute (absent = global) selects the matching branch, which is built on thread_local! keys / process statics owned by the function; '
              'async stores are process statics. Isolation is then a property of LocalKey, sharing a property of static.', ASSUME_COMMON)
    S.check_scope_types(run, ctx)
    from . import gen_witness
    from . import planted as PL
    PL.expect_fires(run, 'C14-T1', 'ThreadLocalCache.cache on a process-wide static', PL.plant_thread_scope_on_shared_storage(ctx), S.check_scope_types)
    gen_witness.judge(run, ctx, 'C14-T1')
    n = W.check_wrapper_config(run, ctx, rules=('C14',))
    run.require('C14-W1', 'fixture wrappers', n, 300)
    from . import rules_l as L
    L.check_no_try_locks(run, ctx.world, 'C14-L1', only=lambda b: b.crate is ctx.core)
    return run


def prop_C19(ctx, tier):
    from . import rules_w as W
    from . import gen_witness
    run = Run('C19', tier,
              'W1: for every fixture of a corpus generated from the attribute grammar (families + pairwise cover) the constants reaching the cache constructor, the policy variant, the scope branch, '
              'the store method, the key builder, the registration names and lists and the predicate paths equal the attribute list (KB/MB/GB as powers of 1024); the async policy string table maps '
              'to the same-named variants. T1: every invalid attribute list of the witness corpus is rejected with the macro\'s own message and its valid twin compiles. '
              'Not decided: behavioural equivalence beyond configuration identity.', ASSUME_COMMON)
    n = W.check_wrapper_config(run, ctx, rules=('C19', 'C14'))
    run.require('C19-W1', 'fixture wrappers', n, 300)
    W.check_wrapper_flow(run, ctx, rules=('C05',))
    from . import planted as PL
    PL.expect_fires(run, 'C05-W1', 'a max_memory fixture stores through the plain insert', PL.plant_memory_store_not_selected(ctx), lambda r, c: W.check_wrapper_flow(r, c, rules=('C05',)))
    W.check_key_builder(run, ctx)
    W.check_registration(run, ctx, rules=('C12', 'C15'))
    n2 = gen_witness.judge(run, ctx, 'C19-T1')
    run.require('C19-T1', 'witness cases', n2, 50)
    run.exhaustive = {'fixtures': ctx.meta.get('fixtures')}
    return run
