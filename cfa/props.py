"""Property -> rule set dispatch."""
import traceback
from .report import Run, fail_closed
from .context import Ctx

ASSUME_COMMON = [
    'nightly rustc mir_built semantics (a Drop terminator ends a guard; no drop flags before elaboration)',
    'lock class abstraction: all caches\' locks of one kind are one class (sound over-approximation for lock order)',
    'user code (function bodies, cache_if / invalidate_on predicates, Clone, MemoryEstimator, Debug, key predicates) does not re-enter the cache it is called from',
    'the fixture corpus stands for the macro output; attribute combinations outside the corpus are not seen',
]


def run(pid, tier):
    fn = globals().get('prop_' + pid)
    if fn is None:
        print('unknown property', pid)
        return 2
    try:
        ctx = Ctx(tier)
    except Exception as e:  # extraction failed: never silently green
        return fail_closed(pid, tier, '%s: %s' % (type(e).__name__, e))
    try:
        r = fn(ctx, tier)
    except Exception as e:
        traceback.print_exc()
        return fail_closed(pid, tier, 'analysis crashed: %s: %s' % (type(e).__name__, e))
    r.digest = ctx.meta['digest']
    r.units = ctx.describe_units()
    return r.finish()


def _selftest_guard(run, rule, what, fired):
    if not fired:
        run.bad(rule, 'fail-closed/selftest/%s' % what, 'fail-closed: the planted positive "%s" in /verif/selftest was not flagged; the rule is blind' % what,
                oracle='selftest positive must be flagged')
    else:
        run.ok(rule, 'selftest/%s' % what, 'planted positive flagged')


def prop_C17(ctx, tier):
    from . import rules_l as L
    run = Run('C17', tier,
              'Lock-order analysis over mir_built of cachelito-core and the generated fixture wrappers/callbacks: guard-carrying locals give may-held sets; '
              'every acquisition (guard or transient, incl. DashMap ops and Once/Lazy) with the classes held locally or by any caller gives an edge; '
              'the graph over blocking classes must be acyclic with no self edge (L1); nothing is acquired under a live DashMap reference (L2); user code is '
              'called with no cache lock held except a reviewed table (L3); registry locks are never taken under cache locks and Lazy initialisers acquire nothing (L4). '
              'Not decided: blocking inside user code; liveness beyond lock order.', ASSUME_COMMON)
    w = ctx.world
    edges, _ = L.check_lock_order(run, w)
    n2, _ = L.check_dashmap_discipline(run, w)
    run.ok('C17-L2', 'all-blocking-acquisitions', '%d blocking acquisitions examined for a live DashMap reference' % n2)
    L.check_user_code(run, ctx, w)
    nw = L.check_wrapper_user_code(run, ctx, w)
    L.check_registration(run, ctx, w, edges)
    classes = sorted({c for e in edges for c in e if not c.startswith('INIT:')})
    run.exhaustive = {'lock_classes': classes, 'bodies': len(w.bodies)}
    run.require('C17-L1', 'cache lock classes', len([c for c in classes if c in ('STORE_RW', 'ORDER', 'STORE_DM')]), 3)
    run.require('C17-L1', 'registry lock classes', len([c for c in classes if c.startswith('REG.') or c == 'STATS_REG']), 7)
    run.require('C17-L1', 'acquisition events', sum(len(v) for v in edges.values()), 1000)
    run.require('C17-L3', 'wrapper user-code sites', nw, 300)
    # selftest positives
    srun = Run('C17', tier, '')
    sw = ctx.st_world
    L.check_lock_order(srun, sw)
    L.check_dashmap_discipline(srun, sw)
    keys = {v['key'] for v in srun.violations}
    _selftest_guard(run, 'C17-L1', 'inversion_a/inversion_b cycle', 'C17:C17-L1:cycle/ORDER+STORE_RW' in keys)
    _selftest_guard(run, 'C17-L1', 'self_deadlock self edge', 'C17:C17-L1:self/ORDER' in keys)
    _selftest_guard(run, 'C17-L2', 'dm_ref_then_lock', any('selftest::dm_ref_then_lock' in k for k in keys))
    if any('selftest::dm_drop_then_lock' in k for k in keys):
        run.bad('C17-L2', 'fail-closed/selftest/negative', 'fail-closed: the negative twin dm_drop_then_lock was flagged; the held-set analysis is wrong')
    return run


def prop_C16(ctx, tier):
    from . import rules_l as L
    run = Run('C16', tier,
              'R1: every RefCell borrow/borrow_mut in cachelito-core and in generated thread-scope wrappers is checked against the RefCell guards that may be live '
              'locally or in any caller (held sets flow through calls and through closures passed to LocalKey::with); a conflicting re-borrow is a panic on every '
              'execution of that path. R2: explicit panic sites (unwrap/expect/index/division) on cache-operation paths are classified by the origin of their operand. '
              'Not decided: arithmetic overflow on absurd sizes; panics inside user code.', ASSUME_COMMON)
    w = ctx.world
    n, bad = L.check_reborrow(run, w)
    run.require('C16-R1', 'RefCell borrow sites', n, 20)
    srun = Run('C16', tier, '')
    L.check_reborrow(srun, ctx.st_world)
    keys = {v['key'] for v in srun.violations}
    _selftest_guard(run, 'C16-R1', 'reborrow via helper', any('selftest::reborrow_helper' in k for k in keys))
    if any('reborrow_helper2' in k for k in keys):
        run.bad('C16-R1', 'fail-closed/selftest/negative', 'fail-closed: the negative twin no_reborrow was flagged')
    from . import rules_x as X
    X.check_panic_sites(run, ctx)
    return run


def prop_C20(ctx, tier):
    from . import rules_l as L
    run = Run('C20', tier,
              'L1: in every generated async wrapper (coroutine body in mir_built, explicit Yield terminators) the may-held set of guard-carrying locals is empty at '
              'every Yield. W1: every cache store in the coroutine is dominated by the resumption that delivers the body\'s ready value; before the first Yield only '
              'registration and the lookup touch the cache. T1: compile-time witness that the future is Send (twin holding a guard across await must fail).', ASSUME_COMMON)
    w = ctx.world
    fx = ctx.fx_async
    n, bad = L.check_yield(run, w, only=lambda b: b.crate is fx)
    run.require('C20-L1', 'yield points in generated async wrappers', n, 100)
    srun = Run('C20', tier, '')
    L.check_yield(srun, ctx.st_world)
    keys = {v['key'] for v in srun.violations}
    _selftest_guard(run, 'C20-L1', 'guard_across_await', any('guard_across_await' in k for k in keys))
    if any('guard_before_await' in k for k in keys):
        run.bad('C20-L1', 'fail-closed/selftest/negative', 'fail-closed: negative twin guard_before_await was flagged')
    from . import rules_w as W
    W.check_async_effect_order(run, ctx)
    W.check_send_witness(run, ctx)
    return run


def prop_C18(ctx, tier):
    from . import rules_l as L
    run = Run('C18', tier,
              'M1: in the global and async caches and in every generated invalidation callback, a store key-removal (remove/clear) that is followed on some path by a '
              'queue removal must lie with it inside one queue critical section (same queue guard local must-held at both, or the queue is an exclusive &mut parameter). '
              'The opposite order and insertions can only leave tolerated orphans and are not demanded. P1: victim loops and selectors skip queue keys absent from the store. '
              'Not decided: that each concurrent call returns its own value; behaviour after quiescence as an execution.', ASSUME_COMMON)
    prog = ctx.prog
    bodies = [b for b in prog.bodies.values()]
    n, bad = L.check_atomic_removal(run, prog, bodies, namer=ctx.label)
    run.require('C18-M1', 'store-removal/queue-removal pairs', n, 20)
    from .program import Program
    sprog = Program([ctx.selftest])
    srun = Run('C18', tier, '')
    L.check_atomic_removal(srun, sprog, list(sprog.bodies.values()))
    keys = {v['key'] for v in srun.violations}
    _selftest_guard(run, 'C18-M1', 'split_removal', any('selftest::split_removal' in k for k in keys))
    _selftest_guard(run, 'C18-M1', 'split_clear', any('selftest::split_clear' in k for k in keys))
    if any('atomic_removal' in k for k in keys):
        run.bad('C18-M1', 'fail-closed/selftest/negative', 'fail-closed: negative twin atomic_removal was flagged')
    from . import rules_core as K
    K.check_orphan_tolerance(run, ctx, 'C18-P1')
    return run
