"""Loading of mirfacts JSON and basic CFG machinery (successors, dominators, post-dominators,
control dependence, reachability).  No rule lives here."""
import json
import re
from collections import defaultdict, deque


class Body:
    def __init__(self, id_, js, crate):
        self.id = id_
        self.path = js.get('path', id_)
        self.name = strip_generics(self.path)
        self.js = js
        self.crate = crate
        self.kind = js['kind']
        self.locals = js['locals']
        self.blocks = js['blocks']
        self.arg_count = js['arg_count']
        self.span = js.get('span', '')
        self.parent = js.get('parent')
        self.impl_self = js.get('impl_self')
        self.n = len(self.blocks)
        self._succ = None
        self._pred = None
        self._dom = None
        self._pdom = None
        self._defs = None
        self._cd = None

    # ---- CFG -------------------------------------------------------------------------------
    def term(self, b):
        return self.blocks[b]['term']

    def succ_all(self, b):
        """(target, kind) pairs; kind in normal|unwind|switch:<val>|otherwise|yield_drop"""
        t = self.blocks[b]['term']
        k = t['k']
        out = []
        if k == 'goto':
            out.append((t['target'], 'normal'))
        elif k == 'switch':
            for v, tb in t['targets']:
                out.append((tb, 'switch:%d' % v))
            out.append((t['otherwise'], 'otherwise'))
        elif k in ('drop', 'assert'):
            out.append((t['target'], 'normal'))
            if t.get('unwind') is not None:
                out.append((t['unwind'], 'unwind'))
        elif k == 'call':
            if t.get('target') is not None:
                out.append((t['target'], 'normal'))
            if t.get('unwind') is not None:
                out.append((t['unwind'], 'unwind'))
        elif k == 'yield':
            out.append((t['resume'], 'normal'))
            if t.get('drop') is not None:
                out.append((t['drop'], 'yield_drop'))
        return out

    @property
    def succ(self):
        """normal (non-unwind, non-cleanup) successors"""
        if self._succ is None:
            s = []
            for b in range(self.n):
                if self.blocks[b]['cleanup']:
                    s.append([])
                    continue
                s.append([t for (t, k) in self.succ_all(b) if k not in ('unwind', 'yield_drop')])
            self._succ = s
        return self._succ

    @property
    def pred(self):
        if self._pred is None:
            p = [[] for _ in range(self.n)]
            for b in range(self.n):
                for t in self.succ[b]:
                    p[t].append(b)
            self._pred = p
        return self._pred

    def reachable(self, start=0, succ=None, blocked=()):
        succ = succ or self.succ
        seen = set()
        dq = deque([start])
        while dq:
            b = dq.popleft()
            if b in seen or b in blocked:
                continue
            seen.add(b)
            for t in succ[b]:
                if t not in seen:
                    dq.append(t)
        return seen

    def exits(self):
        """blocks ending a normal path: return (and diverging calls are not exits)"""
        return [b for b in range(self.n) if self.term(b)['k'] == 'return' and not self.blocks[b]['cleanup']]

    # ---- dominators ------------------------------------------------------------------------
    @staticmethod
    def _dominators(n, roots, succ, pred):
        # iterative set-based; n is small (<= ~250)
        allb = set(range(n))
        reach = set()
        dq = deque(roots)
        while dq:
            b = dq.popleft()
            if b in reach:
                continue
            reach.add(b)
            dq.extend(succ[b])
        dom = {b: set(reach) for b in reach}
        for r in roots:
            dom[r] = {r}
        changed = True
        order = sorted(reach)
        while changed:
            changed = False
            for b in order:
                if b in roots:
                    continue
                ps = [p for p in pred[b] if p in reach]
                if not ps:
                    new = {b}
                else:
                    new = set.intersection(*[dom[p] for p in ps]) | {b}
                if new != dom[b]:
                    dom[b] = new
                    changed = True
        return dom

    @property
    def dom(self):
        if self._dom is None:
            self._dom = self._dominators(self.n, [0], self.succ, self.pred)
        return self._dom

    @property
    def pdom(self):
        """post-dominators w.r.t. normal exits (return blocks); blocks that cannot reach a return
        (diverging) are absent."""
        if self._pdom is None:
            ex = self.exits()
            # virtual exit = n
            n = self.n + 1
            succ = [list(self.pred[b]) for b in range(self.n)] + [list(ex)]
            pred = [list(self.succ[b]) for b in range(self.n)] + [[]]
            for e in ex:
                pred[e] = pred[e] + [self.n]
            d = self._dominators(n, [self.n], succ, pred)
            self._pdom = {b: (s - {self.n}) for b, s in d.items() if b != self.n}
        return self._pdom

    def dominates(self, a, b):
        return b in self.dom and a in self.dom[b]

    def postdominates(self, a, b):
        return b in self.pdom and a in self.pdom[b]

    @property
    def cdeps(self):
        """control dependence: block b -> set of (branch block, successor) such that b is
        control-dependent on that edge (Ferrante et al. via post-dominators)."""
        if self._cd is None:
            cd = defaultdict(set)
            pd = self.pdom
            for a in range(self.n):
                ss = self.succ[a]
                if len(ss) < 2:
                    continue
                for s in ss:
                    if s not in pd:
                        continue
                    # all nodes on the pdom-tree path from s up to (not including) ipdom(a)
                    for x in pd[s]:
                        if x != a and x in pd.get(a, ()):
                            continue  # x strictly post-dominates a: not dependent
                        cd[x].add((a, s))
            self._cd = cd
        return self._cd

    # ---- definitions -----------------------------------------------------------------------
    @property
    def defs(self):
        """local -> list of ('stmt', b, i, rvalue) / ('call', b, term) / ('yield', b, term) for whole-local writes"""
        if self._defs is None:
            d = defaultdict(list)
            for b, bl in enumerate(self.blocks):
                for i, st in enumerate(bl['stmts']):
                    if st['k'] == 'assign' and not st['dst'].get('proj'):
                        d[st['dst']['l']].append(('stmt', b, i, st['rv']))
                t = bl['term']
                if t['k'] == 'call' and not t['dst'].get('proj'):
                    d[t['dst']['l']].append(('call', b, t))
                if t['k'] == 'yield' and not t['resume_arg'].get('proj'):
                    d[t['resume_arg']['l']].append(('yield', b, t))
            self._defs = d
        return self._defs

    def calls(self):
        for b, bl in enumerate(self.blocks):
            t = bl['term']
            if t['k'] == 'call' and not bl['cleanup']:
                yield b, t

    def local_ty(self, l):
        return self.locals[l]['ty']

    def loc(self, b):
        t = self.term(b)
        return t.get('span') or self.span


def callee_path(t):
    c = t['callee']
    return c.get('path') or ''


def callee_name(t):
    """generic-free def path of the callee: `a::b::C::<T>::f` -> `a::b::C::f`"""
    return strip_generics(callee_path(t))


def strip_generics(p):
    """`a::B::<T>::f` -> `a::B::f`; `<a::B<R> as c::D<&str>>::from` -> `<a::B as c::D>::from`"""
    out = []
    i = 0
    n = len(p)
    while i < n:
        ch = p[i]
        if ch == '<':
            prev = p[i - 1] if i > 0 else ''
            if i == 0 or prev in ' (,&<[':
                out.append(ch)  # opener of a qualified path: keep, contents are scanned normally
                i += 1
                continue
            if p.startswith('<impl ', i):
                # inherent-impl path component `<impl str>`: part of the name, kept verbatim
                depth = 0
                j = i
                while j < n:
                    if p[j] == '<':
                        depth += 1
                    elif p[j] == '>':
                        depth -= 1
                        if depth == 0:
                            break
                    j += 1
                out.append(p[i:j + 1])
                i = j + 1
                continue
            # generic argument list: skip to the matching '>'
            depth = 0
            j = i
            while j < n:
                c = p[j]
                if c == '<':
                    depth += 1
                elif c == '>' and not (j > 0 and p[j - 1] == '-'):
                    depth -= 1
                    if depth == 0:
                        break
                j += 1
            if len(out) >= 2 and out[-1] == ':' and out[-2] == ':':
                out.pop()
                out.pop()
            i = j + 1
            continue
        out.append(ch)
        i += 1
    return ''.join(out)


class Crate:
    def __init__(self, js, file=None):
        self.js = js
        self.file = file
        self.name = js['crate']
        self.cfg = js.get('cfg', [])
        self.adts = js['adts']
        self.statics = js['statics']
        self.impls = js['impls']
        self.bodies = {p: Body(p, b, self) for p, b in js['bodies'].items()}

    def find(self, suffix):
        """bodies whose generic-free path ends with suffix"""
        return [b for b in self.bodies.values() if b.name.endswith(suffix)]

    def named(self, name):
        return [b for b in self.bodies.values() if b.name == name]

    def children(self, body):
        """closures/coroutines directly nested in body"""
        return [b for b in self.bodies.values() if b.parent == body.id and b.kind in ('closure', 'coroutine')]

    def descendants(self, body):
        out = []
        todo = [body]
        while todo:
            x = todo.pop()
            for c in self.children(x):
                out.append(c)
                todo.append(c)
        return out


def load_crate(path):
    with open(path) as f:
        return Crate(json.load(f), path)
