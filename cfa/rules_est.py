"""C05-S2: every MemoryEstimator impl of the library, brought to a normal form, equals the reviewed formula
"inline size + owned heap capacity, recursively".

The return value of each impl is evaluated symbolically into a polynomial over
  sz<Ty>            size_of::<Ty>() or size_of_val(x: Ty)       (Self = the impl's own type)
  cap(p) / len(p)   capacity() / len() of the place p
  est(p: Ty)        recursive estimate of the place p
  a -. b            a - b  or  a.saturating_sub(b)
  each(p; t)        sum of t over p.iter()
  alt{..}           one term per match arm / Option case
Addition and multiplication are flattened and sorted, so the form is insensitive to let-bindings, operand
order, size_of vs size_of_val and `-` vs saturating_sub.  The reference column below was written from the
definition in the property ("each value's inline size plus the heap capacity it owns") and reviewed against
the documentation of memory_estimator.rs; it is the instance table of the rule."""
from .expr import Expr, strip_casts
from . import names as N

EST = 'cachelito_core::memory_estimator::MemoryEstimator::estimate_memory'
TRAIT = 'cachelito_core::memory_estimator::MemoryEstimator'

REFERENCE = {
    # impl self type                : normal form
    '<default>':                      'sz<Self>',
    '&str':                           'len(self) + sz<Self>',
    '&[T]':                           'each(self; est(it: T)) + sz<Self>',
    'alloc::string::String':          'cap(self) + sz<Self>',
    'alloc::vec::Vec<T>':             'cap(self)*sz<T> + each(self; est(it: T) -. sz<T>) + sz<Self>',
    'core::option::Option<T>':        'alt{0 | est(self?: T) -. sz<T>} + sz<Self>',
    'core::result::Result<T, E>':     'alt{est(self.Err.0: E) -. sz<E> | est(self.Ok.0: T) -. sz<T>} + sz<Self>',
    '(T1, T2)':                       'est(self.0: T1) -. sz<T1> + est(self.1: T2) -. sz<T2> + sz<Self>',
    '(T1, T2, T3)':                   'est(self.0: T1) -. sz<T1> + est(self.1: T2) -. sz<T2> + est(self.2: T3) -. sz<T3> + sz<Self>',
    'alloc::boxed::Box<T>':           'est(self: T) + sz<Self>',
    'alloc::sync::Arc<T>':            'est(self: T) + sz<Self>',
    'alloc::rc::Rc<T>':               'est(self: T) + sz<Self>',
    'cachelito_core::cache_entry::CacheEntry<R>': 'est(self.value: R) -. sz<R> + sz<Self>',
}

ITER_SRC = ('core::slice::<impl [T]>::iter', 'core::iter::traits::collect::IntoIterator::into_iter', N.VD + 'iter')
TRANSPARENT = ('core::ops::deref::Deref::deref', 'core::option::Option::as_ref', 'core::convert::AsRef::as_ref', 'core::borrow::Borrow::borrow',
               'alloc::vec::Vec::as_slice', 'alloc::string::String::as_str')


class Norm:
    def __init__(self, prog, self_ty):
        self.prog = prog
        self.self_ty = self_ty
        self._ex = {}

    def ex(self, body):
        if body.id not in self._ex:
            self._ex[body.id] = Expr(body)
        return self._ex[body.id]

    def ty(self, t):
        return 'Self' if t in (self.self_ty, 'Self') else t

    def place(self, body, e, env):
        e = strip_casts(e)
        if e[0] == 'param':
            return env.get(e[1], 'arg%d' % e[1])
        if e[0] == 'field':
            base = self.place(body, e[1], env)
            nm = e[2]
            if nm == '0' and base.endswith('.Some'):
                return base[:-5] + '?'
            if nm.startswith('as:'):
                return '%s.%s' % (base, nm[3:])
            return '%s.%s' % (base, nm)
        if e[0] == 'call' and e[1] in TRANSPARENT and e[2]:
            return self.place(body, e[2][0], env)
        if e[0] == 'phi':
            return 'phi'
        return '?'

    def closure(self, cid, place, depth):
        cb = self.prog.bodies.get(cid)
        if cb is None:
            return ('?', 'closure')
        ex = self.ex(cb)
        outs = [self.norm(cb, ex._def(d, 0), {2: place}, depth + 1) for d in cb.defs.get(0, [])]
        if len(outs) == 1:
            return outs[0]
        return ('alt', sorted(outs, key=fmt))

    def norm(self, body, e, env, depth=0):
        if depth > 8:
            return ('?', 'depth')
        e = strip_casts(e)
        k = e[0]
        if k == 'const':
            return ('const', e[1])
        if k == 'field' and e[2] == '0' and e[1][0] == 'bin' and e[1][1].endswith('WithOverflow'):
            inner = e[1]
            return self.arith(inner[1].replace('WithOverflow', ''), self.norm(body, inner[2], env, depth), self.norm(body, inner[3], env, depth))
        if k == 'bin' and e[1] in ('Add', 'Sub', 'Mul'):
            return self.arith(e[1], self.norm(body, e[2], env, depth), self.norm(body, e[3], env, depth))
        if k == 'phi':
            ex = self.ex(body)
            outs = []
            for d in body.defs.get(e[1], []):
                outs.append(self.norm(body, ex._def(d, e[1]), env, depth + 1))
            outs = sorted(set(outs), key=fmt)
            return outs[0] if len(outs) == 1 else ('alt', outs)
        if k == 'call':
            cn = e[1]
            x = e[4] or {}
            if cn == 'core::mem::size_of':
                return ('sz', self.ty((x.get('substs') or ['?'])[0]))
            if cn == 'core::mem::size_of_val':
                return ('sz', self.ty((x.get('substs') or ['?'])[0]))
            if cn == EST:
                return ('est', self.place(body, e[2][0], env), (x.get('substs') or ['?'])[0])
            if cn.endswith('::capacity') and e[2]:
                return ('cap', self.place(body, e[2][0], env))
            if cn.endswith('::len') and e[2]:
                return ('len', self.place(body, e[2][0], env))
            if cn.endswith('::saturating_sub') and len(e[2]) == 2:
                return self.arith('Sub', self.norm(body, e[2][0], env, depth), self.norm(body, e[2][1], env, depth))
            if cn.endswith('::saturating_add') and len(e[2]) == 2:
                return self.arith('Add', self.norm(body, e[2][0], env, depth), self.norm(body, e[2][1], env, depth))
            if cn.endswith('::saturating_mul') and len(e[2]) == 2:
                return self.arith('Mul', self.norm(body, e[2][0], env, depth), self.norm(body, e[2][1], env, depth))
            if cn == 'core::iter::traits::iterator::Iterator::sum' and e[2]:
                src = strip_casts(e[2][0])
                if src[0] == 'call' and src[1] == 'core::iter::traits::iterator::Iterator::map' and (src[4] or {}).get('closures'):
                    it = strip_casts(src[2][0])
                    if it[0] == 'call' and it[1] in ITER_SRC:
                        p = self.place(body, it[2][0], env)
                        return ('each', p, self.closure(src[4]['closures'][0], 'it', depth))
                return ('?', 'sum over ' + src[1] if src[0] == 'call' else 'sum')
            if cn == 'core::option::Option::map_or' and len(e[2]) == 3 and x.get('closures'):
                p = self.place(body, e[2][0], env)
                dflt = self.norm(body, e[2][1], env, depth)
                some = self.closure(x['closures'][0], p + '?', depth)
                return ('alt', sorted({dflt, some}, key=fmt))
            if cn == 'core::option::Option::unwrap_or' and len(e[2]) == 2:
                inner = strip_casts(e[2][0])
                if inner[0] == 'call' and inner[1] == 'core::option::Option::map' and (inner[4] or {}).get('closures'):
                    p = self.place(body, inner[2][0], env)
                    return ('alt', sorted({self.norm(body, e[2][1], env, depth), self.closure(inner[4]['closures'][0], p + '?', depth)}, key=fmt))
            return ('?', cn.rsplit('::', 1)[-1] + '()')
        if k == 'field':
            # payload of `match self { Some(v) => .. }`
            return ('?', self.place(body, e, env))
        return ('?', k)

    def arith(self, op, a, b):
        if op == 'Add':
            terms = []
            for t in (a, b):
                terms.extend(t[1] if t[0] == 'sum' else [t])
            terms = [t for t in terms if t != ('const', 0)]
            if not terms:
                return ('const', 0)
            return terms[0] if len(terms) == 1 else ('sum', sorted(terms, key=fmt))
        if op == 'Mul':
            terms = []
            for t in (a, b):
                terms.extend(t[1] if t[0] == 'prod' else [t])
            terms = [t for t in terms if t != ('const', 1)]
            return terms[0] if len(terms) == 1 else ('prod', sorted(terms, key=fmt))
        if op == 'Sub':
            return ('monus', a, b)
        return ('?', op)


def fmt(t):
    k = t[0]
    if k == 'const':
        return str(t[1])
    if k == 'sz':
        return 'sz<%s>' % t[1]
    if k == 'est':
        return 'est(%s: %s)' % (t[1], t[2])
    if k in ('cap', 'len'):
        return '%s(%s)' % (k, t[1])
    if k == 'sum':
        return ' + '.join(fmt(x) for x in t[1])
    if k == 'prod':
        return '*'.join(fmt(x) if x[0] not in ('sum', 'monus') else '(%s)' % fmt(x) for x in t[1])
    if k == 'monus':
        return '%s -. %s' % (fmt(t[1]) if t[1][0] != 'sum' else '(%s)' % fmt(t[1]), fmt(t[2]) if t[2][0] not in ('sum', 'monus') else '(%s)' % fmt(t[2]))
    if k == 'each':
        return 'each(%s; %s)' % (t[1], fmt(t[2]))
    if k == 'alt':
        return 'alt{%s}' % ' | '.join(fmt(x) for x in t[1])
    return '?%s' % (t[1],)


def check_estimator_forms(run, ctx, rule='C05-S2'):
    core = ctx.core
    n = 0
    seen = set()
    for body in core.bodies.values():
        if body.kind != 'assoc_fn' or not body.name.endswith('::estimate_memory'):
            continue
        if body.js.get('impl_trait') == TRAIT:
            st = body.impl_self
        elif body.name == EST:
            st = '<default>'
        else:
            continue
        n += 1
        nm = Norm(ctx.prog, st if st != '<default>' else 'Self')
        ex = nm.ex(body)
        outs = sorted({fmt(nm.norm(body, ex._def(d, 0), {1: 'self'})) for d in body.defs.get(0, [])})
        got = outs[0] if len(outs) == 1 else 'alt{%s}' % ' | '.join(outs)
        want = REFERENCE.get(st)
        if want is None:
            run.ok(rule, st + '/unreviewed', 'impl not in the reviewed table (informational): %s' % got, trivial=True)
            continue
        seen.add(st)
        if got == want:
            run.ok(rule, st, got)
        else:
            run.bad(rule, st + '/estimate-formula', 'MemoryEstimator for %s computes  %s  but the size of a value is its inline size plus the heap capacity it owns:  %s'
                    % (st, got, want), site=body.name, oracle=want)
    for st in REFERENCE:
        if st not in seen:
            run.bad(rule, st + '/fail-closed', 'fail-closed: no MemoryEstimator impl found for %s' % st)
    run.require(rule, 'estimator impls normalised', len(seen), len(REFERENCE))
    return n


def check_estimator_lower_bound(run, ctx, rule='C16-R3'):
    """the wrappers' estimators compute `inner.estimate_memory() - size_of_val(inner)` with a checked subtraction (a panic in
    debug builds, a wrap-around in release builds): it is safe because every estimator of the library returns at least the
    inline size of its value, i.e. `sz<Self>` is a summand of its normal form"""
    n = 0
    for body in ctx.core.bodies.values():
        if body.kind != 'assoc_fn' or not body.name.endswith('::estimate_memory'):
            continue
        if body.js.get('impl_trait') == TRAIT:
            st = body.impl_self
        elif body.name == EST:
            st = '<default>'
        else:
            continue
        n += 1
        nm = Norm(ctx.prog, st if st != '<default>' else 'Self')
        ex = nm.ex(body)
        bad = []
        for d in body.defs.get(0, []):
            t = nm.norm(body, ex._def(d, 0), {1: 'self'})
            terms = t[1] if t[0] == 'sum' else [t]
            if ('sz', 'Self') not in terms:
                bad.append(fmt(t))
        if bad:
            run.bad(rule, st + '/below-inline-size', 'MemoryEstimator for %s can return less than size_of_val(self) (%s): Option / Result / tuple / Vec / CacheEntry estimators subtract '
                    'size_of_val from the estimate of their component, which then underflows (panic with overflow checks, a huge size otherwise)' % (st, '; '.join(bad)),
                    site=body.name, oracle='estimate = size_of::<Self>() + non-negative terms')
        else:
            run.ok(rule, st, 'estimate >= size_of::<Self>()')
    run.require(rule, 'library estimators', n, 13)
    return n
