"""Backwards origin resolution: what does a place/operand denote?

An origin is a tuple:
  ('param', local, fields)          parameter `local` (1-based local index), field path (names)
  ('static', path, fields)
  ('const', constdict)
  ('call', block, callee_name, fields)   result of the call terminating `block`
  ('agg', block, stmt_index, fields)
  ('discr', origin)
  ('bin', op, origin_a, origin_b)
  ('un', op, origin)
  ('multi', (origins...))
  ('tlref', path)
  ('unknown', why)
`fields` is a tuple of field names / 'Some' style downcasts; derefs are dropped.
"""
from .facts import callee_name

DEREF_LIKE = (
    'core::ops::deref::Deref::deref', 'core::ops::deref::DerefMut::deref_mut',
    'core::borrow::Borrow::borrow', 'core::borrow::BorrowMut::borrow_mut',
    'core::convert::AsRef::as_ref', 'core::convert::AsMut::as_mut',
    'alloc::string::String::as_str', 'alloc::string::String::as_mut_str',
    'once_cell::sync::Lazy::force', 'std::sync::lazy_lock::LazyLock::force',
    'core::convert::identity',
    'core::option::Option::as_ref', 'core::option::Option::as_mut',
    'core::option::Option::as_deref', 'core::option::Option::as_deref_mut',
    'alloc::vec::Vec::as_slice',
)
VALUE_LIKE = (
    'core::clone::Clone::clone', 'alloc::string::ToString::to_string',
    'alloc::borrow::ToOwned::to_owned', 'core::convert::Into::into', 'core::convert::From::from',
    'core::option::Option::cloned', 'core::option::Option::copied',
    'alloc::str::<impl str>::to_owned', 'alloc::str::<impl str>::to_string',
)


def proj_fields(proj):
    out = []
    for e in proj or ():
        if e == 'deref':
            continue
        if isinstance(e, dict):
            if 'f' in e:
                out.append(e['name'])
            elif 'dc' in e:
                out.append('as:' + e['dc'])
            elif 'idx' in e or 'cidx' in e:
                out.append('[]')
        else:
            out.append(str(e))
    return tuple(out)


class Resolver:
    def __init__(self, body, value_like=True, extra_transparent=()):
        self.body = body
        self.transparent = set(DEREF_LIKE) | set(extra_transparent)
        if value_like:
            self.transparent |= set(VALUE_LIKE)
        self._memo = {}

    def operand(self, o):
        if 'copy' in o:
            return self.place(o['copy'])
        if 'move' in o:
            return self.place(o['move'])
        if 'const' in o:
            c = o['const']
            if 'static' in c:
                return ('static', c['static'], ())
            return ('const', _freeze(c))
        return ('unknown', 'operand')

    def place(self, p):
        base = self.local(p['l'])
        f = proj_fields(p.get('proj'))
        return _extend(base, f)

    def local(self, l, _stack=None):
        if l in self._memo:
            return self._memo[l]
        _stack = _stack or set()
        if l in _stack:
            return ('unknown', 'cycle')
        _stack = _stack | {l}
        body = self.body
        defs = body.defs.get(l, [])
        if not defs:
            if 1 <= l <= body.arg_count:
                r = ('param', l, ())
            else:
                r = ('unknown', 'nodef:%d' % l)
            self._memo[l] = r
            return r
        outs = []
        for d in defs:
            outs.append(self._def(d, _stack))
        outs = _dedupe(outs)
        r = outs[0] if len(outs) == 1 else ('multi', tuple(outs))
        self._memo[l] = r
        return r

    def _sub(self, o, _stack):
        if 'copy' in o or 'move' in o:
            p = o.get('copy') or o.get('move')
            base = self.local(p['l'], _stack)
            return _extend(base, proj_fields(p.get('proj')))
        return self.operand(o)

    def _subplace(self, p, _stack):
        base = self.local(p['l'], _stack)
        return _extend(base, proj_fields(p.get('proj')))

    def _def(self, d, _stack):
        if d[0] == 'stmt':
            _, b, i, rv = d
            if 'use' in rv:
                return self._sub(rv['use'], _stack)
            if 'ref' in rv:
                return self._subplace(rv['ref'], _stack)
            if 'rawptr' in rv:
                return self._subplace(rv['rawptr'], _stack)
            if 'cast' in rv:
                return self._sub(rv['cast'], _stack)
            if 'discr' in rv:
                return ('discr', self._subplace(rv['discr'], _stack))
            if 'bin' in rv:
                return ('bin', rv['bin'], self._sub(rv['a'], _stack), self._sub(rv['b'], _stack))
            if 'un' in rv:
                return ('un', rv['un'], self._sub(rv['a'], _stack))
            if 'agg' in rv:
                return ('agg', b, i, ())
            if 'tlref' in rv:
                return ('tlref', rv['tlref'])
            return ('unknown', 'rvalue')
        if d[0] == 'call':
            _, b, t = d
            cn = callee_name(t)
            if cn in self.transparent and t['args']:
                return self._sub(t['args'][0], _stack)
            return ('call', b, cn, ())
        if d[0] == 'yield':
            return ('call', d[1], '<yield>', ())
        return ('unknown', 'def')


def _freeze(c):
    return tuple(sorted((k, (v if not isinstance(v, (dict, list)) else repr(v))) for k, v in c.items()))


def const_dict(o):
    """turn a ('const', frozen) origin back into a dict"""
    return dict(o[1])


def _extend(o, f):
    if not f:
        return o
    k = o[0]
    if k == 'param':
        return ('param', o[1], o[2] + f)
    if k == 'static':
        return ('static', o[1], o[2] + f)
    if k == 'call':
        return ('call', o[1], o[2], o[3] + f)
    if k == 'agg':
        return ('agg', o[1], o[2], o[3] + f)
    if k == 'multi':
        return ('multi', tuple(_extend(x, f) for x in o[1]))
    return ('field', o, f)


def _dedupe(xs):
    out = []
    for x in xs:
        if x not in out:
            out.append(x)
    return out


def flatten(o):
    """all leaf origins of a (possibly multi) origin"""
    if o[0] == 'multi':
        out = []
        for x in o[1]:
            out.extend(flatten(x))
        return out
    return [o]
