"""A small parser for the type strings printed by mirfacts, enough to find the top-level
constructor, generic arguments, references and tuples."""
from functools import lru_cache


class T:
    __slots__ = ('kind', 'name', 'args', 'text')

    def __init__(self, kind, name=None, args=(), text=''):
        self.kind = kind  # ref | adt | tuple | slice | array | other
        self.name = name  # adt path / 'mut' or '' for refs
        self.args = list(args)
        self.text = text

    def __repr__(self):
        return 'T(%s,%s,%r)' % (self.kind, self.name, self.args)


def _split_top(s, sep=','):
    out = []
    depth = 0
    cur = []
    i = 0
    while i < len(s):
        ch = s[i]
        if ch in '<([{':
            depth += 1
        elif ch in '>)]}':
            if ch == '>' and i > 0 and s[i - 1] == '-':
                pass  # '->'
            else:
                depth -= 1
        if ch == sep and depth == 0:
            out.append(''.join(cur).strip())
            cur = []
        else:
            cur.append(ch)
        i += 1
    last = ''.join(cur).strip()
    if last:
        out.append(last)
    return out


@lru_cache(maxsize=None)
def parse(s):
    s = s.strip()
    if s.startswith('&'):
        r = s[1:].lstrip()
        if r.startswith("'"):
            # lifetime
            j = 1
            while j < len(r) and (r[j].isalnum() or r[j] == '_'):
                j += 1
            r = r[j:].lstrip()
        mut = ''
        if r.startswith('mut '):
            mut = 'mut'
            r = r[4:]
        return T('ref', mut, [parse(r)], s)
    if s.startswith('*const ') or s.startswith('*mut '):
        return T('other', None, [], s)
    if s.startswith('(') and s.endswith(')'):
        inner = s[1:-1]
        return T('tuple', None, [parse(x) for x in _split_top(inner)], s)
    if s.startswith('[') and s.endswith(']'):
        inner = s[1:-1]
        parts = _split_top(inner, ';')
        return T('slice' if len(parts) == 1 else 'array', None, [parse(parts[0])], s)
    if s.startswith('{') or s.startswith('dyn ') or s.startswith('impl ') or s.startswith('fn(') \
            or s.startswith('for<') or s.startswith('unsafe ') or s.startswith('extern '):
        return T('other', None, [], s)
    if s.startswith('<'):
        return T('other', None, [], s)  # qualified projection type
    # path with optional generics
    lt = s.find('<')
    if lt == -1:
        return T('adt', s, [], s)
    if not s.endswith('>'):
        return T('other', None, [], s)
    name = s[:lt]
    inner = s[lt + 1:-1]
    args = []
    for a in _split_top(inner):
        if a.startswith("'"):
            continue
        args.append(parse(a))
    return T('adt', name, args, s)


GUARDS = {
    # ADT path -> (family, mode)
    'lock_api::mutex::MutexGuard': ('mutex', 'x'),
    'lock_api::mutex::MappedMutexGuard': ('mutex', 'x'),
    'lock_api::rwlock::RwLockReadGuard': ('rw', 'r'),
    'lock_api::rwlock::RwLockWriteGuard': ('rw', 'w'),
    'lock_api::rwlock::RwLockUpgradableReadGuard': ('rw', 'w'),
    'lock_api::rwlock::MappedRwLockReadGuard': ('rw', 'r'),
    'lock_api::rwlock::MappedRwLockWriteGuard': ('rw', 'w'),
    'std::sync::poison::mutex::MutexGuard': ('mutex', 'x'),
    'std::sync::poison::rwlock::RwLockReadGuard': ('rw', 'r'),
    'std::sync::poison::rwlock::RwLockWriteGuard': ('rw', 'w'),
    'core::cell::Ref': ('cell', 'r'),
    'core::cell::RefMut': ('cell', 'w'),
    'dashmap::mapref::one::Ref': ('dm', 'r'),
    'dashmap::mapref::one::RefMut': ('dm', 'w'),
    'dashmap::mapref::multiple::RefMulti': ('dm', 'r'),
    'dashmap::mapref::multiple::RefMutMulti': ('dm', 'w'),
    'dashmap::iter::Iter': ('dm', 'r'),
    'dashmap::iter::IterMut': ('dm', 'w'),
    'dashmap::mapref::entry::Entry': ('dm', 'w'),
    'dashmap::mapref::entry::OccupiedEntry': ('dm', 'w'),
    'dashmap::mapref::entry::VacantEntry': ('dm', 'w'),
}

# wrappers through which an owned guard is still owned
_CARRIERS = ('core::option::Option', 'core::result::Result', 'alloc::boxed::Box')


def _is_carrier(name):
    return name in _CARRIERS or name.startswith('core::iter::adapters::')


def guard_of(name):
    return GUARDS.get(name)


def guards_in(t):
    """owned guards carried by a value of type t: list of (family, mode, payload-type-string)"""
    out = []
    if t.kind == 'adt':
        g = guard_of(t.name)
        if g:
            fam, mode = g
            if fam in ('mutex', 'rw', 'cell'):
                payload = t.args[-1].text if t.args else ''
            else:
                payload = ', '.join(a.text for a in t.args)
            out.append((fam, mode, payload))
        elif _is_carrier(t.name):
            for a in t.args:
                out.extend(guards_in(a))
    elif t.kind == 'tuple':
        for a in t.args:
            out.extend(guards_in(a))
    return out


def strip_refs(t):
    while t.kind == 'ref':
        t = t.args[0]
    return t
