def check_async_effect_order(run, ctx):
    pass
def check_send_witness(run, ctx):
    pass
