"""Engine W: rules on the generated wrappers of the fixture corpus (fx_sync, fx_async)."""
from collections import defaultdict
from .facts import callee_name, strip_generics
from .spec import Spec, Weigher
from .expr import Expr, walk, calls_in, strip_casts, field_path, show
from .program import ONCE_FAMILY
from .types import parse, strip_refs
from . import names as N

STORE_METHODS = ('insert', 'insert_with_memory', 'insert_result', 'insert_result_with_memory')
FN_CALLS = ('core::ops::function::Fn::call', 'core::ops::function::FnOnce::call_once', 'core::ops::function::FnMut::call_mut')
INTO_FUTURE = 'core::future::into_future::IntoFuture::into_future'
POLL = 'core::future::future::Future::poll'
IS_OK = 'core::result::Result::is_ok'
VOCAB_W = ['new', 'get', 'body', 'store', 'pred:cache_if', 'pred:invalidate_on', 'is_ok', 'once']
IXW = {k: i for i, k in enumerate(VOCAB_W)}
NEW_ARGS = {
    N.GLOBAL: ['map', 'order', 'limit', 'max_memory', 'policy', 'ttl', 'frequency_weight', 'stats'],
    N.THREAD: ['map', 'order', 'limit', 'max_memory', 'policy', 'ttl', 'frequency_weight'],
    N.ASYNC: ['map', 'order', 'limit', 'max_memory', 'policy', 'ttl', 'frequency_weight', 'stats'],
}


class Wrap:
    def __init__(self, ctx, path, e):
        self.ctx = ctx
        self.prog = ctx.prog
        self.path = path
        self.e = e
        self.is_async = e['macro'] == 'async'
        fns = self.prog.by_name.get(path, [])
        self.fn = fns[0] if fns else None
        self.body = None
        if self.fn is not None:
            if self.is_async:
                cs = [c for c in self.fn.crate.children(self.fn) if c.kind == 'coroutine']
                self.body = cs[0] if len(cs) == 1 else None
            else:
                self.body = self.fn
        self.crate = self.fn.crate.name if self.fn else None
        self._ex = None
        self._sites = None

    @property
    def ex(self):
        if self._ex is None:
            self._ex = Expr(self.body)
        return self._ex

    def classify(self, t):
        cn = callee_name(t)
        for adt in N.CACHE_ADTS:
            if cn == adt + '::new':
                return 'new'
            if cn == adt + '::get':
                return 'get'
            for m in STORE_METHODS:
                if cn == adt + '::' + m:
                    return 'store'
        if cn in FN_CALLS and not self.is_async:
            r = t['callee'].get('resolved_id') or ''
            if r.startswith(self.fn.id + '::{closure'):
                return 'body'
        if cn == INTO_FUTURE and self.is_async:
            return 'body'
        if cn == IS_OK:
            return 'is_ok'
        if cn in ONCE_FAMILY:
            return 'once'
        for attr in ('cache_if', 'invalidate_on'):
            if self.e.get(attr) and cn == '%s::%s' % (self.crate, self.e[attr]):
                return 'pred:' + attr
        return None

    def sites(self, reachable=None):
        out = defaultdict(list)
        for b, t in self.body.calls():
            if reachable is not None and b not in reachable:
                continue
            k = self.classify(t)
            if k:
                out[k].append((b, t))
        return out

    def selected(self):
        """blocks reachable once the scope test is folded"""
        sp = Spec(self.prog, self.body, {})
        return sp.reachable_blocks()

    def weigher(self, oracles):
        return Weigher(self.prog, {}, VOCAB_W, oracles=oracles, classify=self.classify, descend=False)

    def param_expr(self, i):
        """expression denoting the i-th (1-based, receiver first) parameter inside the analysed body"""
        if not self.is_async:
            return ('param', i)
        return ('upvar', i - 1)

    def norm(self, e):
        """normalise parameter references: coroutine captures -> ('upvar', k); a tuple rebuilt from all
        components of one destructured parameter, in order, -> that parameter"""
        e = strip_casts(e)
        if self.is_async and e[0] == 'field' and e[1] == ('param', 1) and str(e[3]).startswith('coroutine:'):
            return ('upvar', int(e[2]))
        if e[0] == 'agg' and e[1] == 'tuple' and e[2]:
            parts = [self.norm(x) for x in e[2]]
            roots = set()
            okk = True
            for i, p_ in enumerate(parts):
                p_ = strip_casts(p_)
                if p_[0] == 'field' and p_[2] == str(i) and p_[3] == 'tuple':
                    roots.add(self.norm(p_[1]) if p_[1][0] != 'param' else p_[1])
                elif p_[0] == 'call' and p_[1] == N.CLONE and p_[2] and strip_casts(p_[2][0])[0] == 'field' and strip_casts(p_[2][0])[2] == str(i):
                    q = strip_casts(p_[2][0])
                    roots.add(self.norm(q[1]) if q[1][0] != 'param' else q[1])
                else:
                    okk = False
            if okk and len(roots) == 1:
                return roots.pop()
        return e


def wrappers(ctx):
    if not hasattr(ctx, '_wrappers'):
        ws = []
        for path, e in sorted(ctx.expect.items()):
            ws.append(Wrap(ctx, path, e))
        ctx._wrappers = ws
    return ctx._wrappers


def _ret_ty(w):
    """resolved return type: for an async fn the coroutine's return place, not the opaque future"""
    if w.is_async and w.body is not None:
        return w.body.local_ty(0)
    return w.fn.js.get('ret_ty') or ''


def _resolved_result(w):
    return _ret_ty(w).startswith('core::result::Result<')


def _vecw(v):
    return {k: v[i] for k, i in IXW.items()}


def _fx_key(w, suffix):
    return '%s/%s' % ('cache' if not w.is_async else 'cache_async', suffix)


# ------------------------------------------------------------------------------------------------
def wrapper_scenarios(ctx):
    """per fixture: list of (oracle assignment dict, outcomes set(vec)) plus site table"""
    if hasattr(ctx, '_wrap_rows'):
        return ctx._wrap_rows
    rows = []
    for w in wrappers(ctx):
        if w.body is None:
            rows.append((w, None, None))
            continue
        reach = w.selected()
        sites = w.sites(reach)
        combos = []
        inv = bool(w.e.get('invalidate_on'))
        cif = bool(w.e.get('cache_if'))
        isok = bool(sites.get('is_ok'))
        for found in (0, 1):
            for stale in ((0, 1) if (inv and found) else (None,)):
                for keep in ((0, 1) if cif else (None,)):
                    for ok in ((0, 1) if isok else (None,)):
                        combos.append({'found': found, 'stale': stale, 'keep': keep, 'ok': ok})
        res = []
        for c in combos:
            orc = {}
            for (b, t) in sites.get('get', []):
                orc[(w.body.id, b)] = c['found']
            for (b, t) in sites.get('pred:invalidate_on', []):
                if c['stale'] is not None:
                    orc[(w.body.id, b)] = c['stale']
            for (b, t) in sites.get('pred:cache_if', []):
                if c['keep'] is not None:
                    orc[(w.body.id, b)] = c['keep']
            for (b, t) in sites.get('is_ok', []):
                if c['ok'] is not None:
                    orc[(w.body.id, b)] = c['ok']
            wg = w.weigher(orc)
            sp = wg.spec(w.body)
            outs = set()
            for n_, vs in sp.path_totals().items():
                outs |= vs
            res.append((c, outs))
        rows.append((w, sites, res))
    ctx._wrap_rows = rows
    return rows


def check_wrapper_flow(run, ctx, rules):
    """C03-W1/W2, C09-W1, C10-W1, C11-W1 (selected by `rules`) on the scenario table of every fixture"""
    n = 0
    fams = defaultdict(int)
    for (w, sites, res) in wrapper_scenarios(ctx):
        fam = w.e['family']
        if w.body is None or res is None:
            run.bad(rules[0], _fx_key(w, 'fail-closed/%s' % w.path), 'fail-closed: fixture %s has no analysable body' % w.path)
            continue
        inv = bool(w.e.get('invalidate_on'))
        cif = bool(w.e.get('cache_if'))
        is_res = _resolved_result(w)
        mem = w.e.get('max_memory') is not None
        if len(sites.get('get', [])) != 1 or len(sites.get('new', [])) != 1 or len(sites.get('body', [])) != 1:
            run.bad(rules[0], _fx_key(w, 'shape'), 'generated wrapper of %s does not have exactly one cache construction, one lookup and one body invocation on the selected branch '
                    '(new=%d get=%d body=%d)' % (w.path, len(sites.get('new', [])), len(sites.get('get', [])), len(sites.get('body', []))), site=w.path)
            continue
        if not sites.get('store') or any(not outs for (c, outs) in res):
            run.bad(rules[0] + '-W1', _fx_key(w, 'shape-no-store'), 'generated wrapper of %s has no reachable store call or no path to return in some scenario (stores=%d)'
                    % (w.path, len(sites.get('store', []))), site=w.path, oracle='every wrapper stores its result on some path and returns')
            continue
        fams[fam] += 1
        store_methods = sorted({callee_name(t).rsplit('::', 1)[-1] for (b, t) in sites.get('store', [])})
        for (c, outs) in res:
            for v in outs:
                d = _vecw(v)
                n += 1
                body_exp = 1 if (c['found'] == 0 or (inv and c['stale'] == 1)) else 0
                desc = '%s [%s] scenario %s' % (w.path, ', '.join('%s = %s' % (a, b) for a, b in w.e['attrs']) or 'no attributes', {k: v_ for k, v_ in c.items() if v_ is not None})
                # --- C03-W1: hit returns before the body; miss runs it once
                if 'C03' in rules:
                    if d['get'] != 1:
                        run.bad('C03-W1', _fx_key(w, 'lookup-count'), 'the wrapper performs %d lookups on a path (%s)' % (d['get'], desc), site=w.path)
                    elif d['body'] != body_exp:
                        run.bad('C03-W1', _fx_key(w, 'hit-runs-body' if body_exp == 0 else 'miss-skips-body'),
                                'the function body runs %d time(s) where %d is expected (%s)' % (d['body'], body_exp, desc), site=w.path,
                                oracle='cached value returned before the body; body runs exactly once on a miss / stale entry')
                    elif not cif and not is_res and body_exp == 1 and d['store'] != 1:
                        run.bad('C03-W2', _fx_key(w, 'result-not-stored'), 'a computed result of a plain-typed function is stored %d time(s) (%s)' % (d['store'], desc), site=w.path,
                                oracle='unconditional store after the body for plain return types')
                    elif body_exp == 0 and d['store']:
                        run.bad('C03-W1', _fx_key(w, 'hit-stores'), 'a served hit stores again (%s)' % desc, site=w.path)
                    else:
                        run.ok('C03-W1', '%s/%s' % (w.path, c), 'body=%d store=%d' % (d['body'], d['store']))
                # --- C11-W1
                if 'C11' in rules and inv:
                    exp_inv = 1 if c['found'] == 1 else 0
                    if d['pred:invalidate_on'] != exp_inv:
                        run.bad('C11-W1', _fx_key(w, 'check-count'), 'invalidate_on is consulted %d time(s), expected %d (%s)' % (d['pred:invalidate_on'], exp_inv, desc), site=w.path,
                                oracle='the check is consulted exactly once per cached entry found, never on a miss')
                    elif d['body'] != body_exp:
                        run.bad('C11-W1', _fx_key(w, 'stale-served' if body_exp else 'fresh-recomputed'),
                                '%s (%s)' % ('an entry the check declares stale is returned without recomputing' if body_exp else 'an entry the check accepts is recomputed', desc),
                                site=w.path, oracle='cached value returned only on the false edge of invalidate_on(&key, &cached)')
                    elif body_exp and not cif and not is_res and d['store'] != 1:
                        run.bad('C11-W1', _fx_key(w, 'refresh-not-stored'), 'the recomputed value of a stale entry is not stored (%s)' % desc, site=w.path)
                    else:
                        run.ok('C11-W1', '%s/%s' % (w.path, c), 'check=%d body=%d store=%d' % (d['pred:invalidate_on'], d['body'], d['store']))
                # --- C10-W1
                if 'C10' in rules and cif:
                    if d['pred:cache_if'] != body_exp:
                        run.bad('C10-W1', _fx_key(w, 'predicate-count'), 'cache_if is consulted %d time(s) where %d is expected (%s)' % (d['pred:cache_if'], body_exp, desc), site=w.path,
                                oracle='the predicate is consulted exactly once per execution of the body and never on a hit')
                    elif body_exp and d['store'] != (1 if c['keep'] else 0) and not (is_res and not w.is_async):
                        run.bad('C10-W1', _fx_key(w, 'predicate-ignored' if d['store'] else 'predicate-inverted'),
                                'cache_if returned %s but the result is stored %d time(s) (%s)' % (bool(c['keep']), d['store'], desc), site=w.path,
                                oracle='store control-dependent on the true edge of cache_if(&key, &result)')
                    elif body_exp and is_res and not w.is_async and d['store'] != (1 if c['keep'] else 0):
                        run.bad('C10-W1', _fx_key(w, 'predicate-ignored' if d['store'] else 'predicate-inverted'),
                                'cache_if returned %s but the store call is made %d time(s) (%s)' % (bool(c['keep']), d['store'], desc), site=w.path)
                    else:
                        run.ok('C10-W1', '%s/%s' % (w.path, c), 'pred=%d store=%d' % (d['pred:cache_if'], d['store']))
                # --- C09-W1 (async part: store guarded by is_ok)
                if 'C09' in rules and is_res and not cif and w.is_async and body_exp:
                    if c['ok'] is None:
                        pass  # no is_ok site at all: reported below once per fixture
                    elif d['store'] != c['ok']:
                        run.bad('C09-W1', _fx_key(w, 'err-stored' if d['store'] else 'ok-not-stored'), 'is_ok() is %s but the result is stored %d time(s) (%s)' % (bool(c['ok']), d['store'], desc), site=w.path,
                                oracle='async: store control-dependent on the true edge of result.is_ok()')
                    else:
                        run.ok('C09-W1', '%s/%s' % (w.path, c), 'ok=%s store=%d' % (c['ok'], d['store']))
        # --- per-fixture store-method rules
        if 'C09' in rules and is_res and not cif:
            n += 1
            if not w.is_async:
                bad = [m for m in store_methods if not m.startswith('insert_result')]
                if bad or not store_methods:
                    run.bad('C09-W1', _fx_key(w, 'err-cached/%s' % w.e['ret']), 'the function returns a Result (resolved type %s, written `%s`) but the generated store is `%s`: Err values are cached'
                            % (_ret_ty(w), w.e['ret'], ','.join(store_methods) or 'none'), site=w.path, oracle='sync Result functions store through insert_result*/Ok only')
                else:
                    run.ok('C09-W1', '%s/store-method' % w.path, 'Result `%s` -> %s' % (w.e['ret'], store_methods))
            else:
                if not sites.get('is_ok'):
                    run.bad('C09-W1', _fx_key(w, 'err-cached/%s' % w.e['ret']), 'the async function returns a Result (resolved type %s, written `%s`) but the generated store is not guarded by is_ok(): '
                            'Err values are cached' % (_ret_ty(w), w.e['ret']), site=w.path, oracle='async Result functions store only when is_ok()')
                else:
                    run.ok('C09-W1', '%s/is_ok-guard' % w.path, 'Result `%s` guarded by is_ok' % w.e['ret'])
        if 'C10' in rules and cif and is_res and not w.is_async:
            n += 1
            bad = [m for m in store_methods if not m.startswith('insert_result')]
            if bad:
                run.bad('C10-W1', _fx_key(w, 'result-with-cache_if-stores-err/%s' % w.e['ret']), 'a sync Result function with cache_if stores through `%s`: an accepted Err would be cached (written `%s`)'
                        % (','.join(store_methods), w.e['ret']), site=w.path, oracle='for sync Result functions the guarded store is the Ok-only one')
            else:
                run.ok('C10-W1', '%s/ok-only-store' % w.path, 'guarded store is %s' % store_methods)
        if 'C05' in rules:
            n += 1
            want_mem = mem
            got_mem = [m.endswith('with_memory') for m in store_methods]
            if store_methods and all(g == want_mem for g in got_mem):
                run.ok('C05-W1', '%s/store-method' % w.path, 'max_memory %s -> %s' % ('set' if mem else 'absent', store_methods))
            else:
                run.bad('C05-W1', _fx_key(w, 'memory-store-mismatch'), 'max_memory is %s but the generated store is `%s` (%s)' % ('set' if mem else 'absent', ','.join(store_methods) or 'none', w.path),
                        site=w.path, oracle='max_memory present <=> *_with_memory store')
    return n, dict(fams)


# ------------------------------------------------------------------------------------------------
def check_wrapper_dataflow(run, ctx, rule='C01-W1'):
    """same key to lookup and store; hit returns the looked-up payload; otherwise the body result, which is what gets stored;
    predicates receive (key, value)"""
    n = 0
    for (w, sites, res) in wrapper_scenarios(ctx):
        if w.body is None or not sites or len(sites.get('get', [])) != 1 or len(sites.get('body', [])) != 1:
            run.bad(rule, _fx_key(w, 'shape'), 'generated wrapper of %s does not have exactly one lookup and one body invocation on the selected branch (get=%d body=%d): the key / value '
                    'dataflow cannot be judged' % (w.path, len((sites or {}).get('get', [])), len((sites or {}).get('body', []))), site=w.path)
            continue
        ex = w.ex
        body = w.body
        n += 1
        gb, gt = sites['get'][0]
        bb, bt = sites['body'][0]
        key_get = ex.operand(gt['args'][1])
        probs = []
        for (sb, st) in sites.get('store', []):
            ks = ex.operand(st['args'][1])
            if _unclone(ks) != _unclone(key_get):
                probs.append('store key %s differs from lookup key %s' % (show(ks), show(key_get)))
            val = strip_casts(ex.operand(st['args'][2]))
            # value: clone(result) or result; result is the body's value
            root = val
            if root[0] == 'call' and root[1] == N.CLONE:
                root = root[2][0]
            if not _is_body_result(w, root, bb):
                probs.append('stored value %s is not the result of the body invocation' % show(val))
        for (pb, pt) in sites.get('pred:cache_if', []):
            a0 = _unclone(ex.operand(pt['args'][0]))
            a1 = strip_casts(ex.operand(pt['args'][1]))
            if a0 != _unclone(key_get):
                probs.append('cache_if is given %s instead of the key' % show(a0))
            if not _is_body_result(w, a1, bb):
                probs.append('cache_if is given %s instead of the result' % show(a1))
        for (pb, pt) in sites.get('pred:invalidate_on', []):
            a0 = _unclone(ex.operand(pt['args'][0]))
            a1 = strip_casts(ex.operand(pt['args'][1]))
            if a0 != _unclone(key_get):
                probs.append('invalidate_on is given %s instead of the key' % show(a0))
            if not _is_cached(a1, gb):
                probs.append('invalidate_on is given %s instead of the cached value' % show(a1))
        # return value definitions (on the branch the scope selects)
        reach = w.selected()
        for d in body.defs.get(0, []):
            if d[1] not in reach:
                continue
            e = strip_casts(ex._def(d, 0))
            if w.is_async and e[0] == 'agg' and e[1].endswith('Poll::Ready'):
                e = strip_casts(e[2][0])
            blk = d[1]
            if _is_cached(e, gb):
                if blk in body.reachable(bb):
                    probs.append('a cached value is returned after the body has run (bb%d)' % blk)
            elif _is_body_result(w, e, bb):
                if not body.dominates(bb, blk):
                    probs.append('the body result is returned on a path that does not run the body')
            elif e[0] == 'const' and e[2] == '()':
                pass
            else:
                probs.append('the wrapper returns %s, which is neither the cached value nor the body result' % show(e))
        if probs:
            run.bad(rule, _fx_key(w, 'dataflow'), 'generated wrapper of %s: %s' % (w.path, '; '.join(sorted(set(probs)))), site=w.path,
                    oracle='key -> get -> (body) -> store(key, result) -> return result / cached')
        else:
            run.ok(rule, w.path, 'lookup and store share the key; hit returns the looked-up payload; miss returns and stores the body result')
    return n


def _unclone(e):
    """a clone of a value is that value, for the purpose of "which value is this" """
    e = strip_casts(e)
    while e[0] == 'call' and e[1] == N.CLONE and e[2]:
        e = strip_casts(e[2][0])
    return e


def _is_cached(e, get_block):
    e = _unclone(e)
    root, names = field_path(e)
    return root[0] == 'call' and root[3] == get_block and names[:2] == ['as:Some', '0']


def _is_body_result(w, e, body_block):
    e = _unclone(e)
    if not w.is_async:
        return e[0] == 'call' and e[3] == body_block
    root, names = field_path(e)
    if root[0] == 'call' and root[1] == POLL and names[:2] == ['as:Ready', '0']:
        # the polled future is the one created at body_block
        return True
    return False


# ------------------------------------------------------------------------------------------------
def _opt_const(e):
    """('some', value) | ('none',) | None from an Option aggregate expression"""
    e = strip_casts(e)
    if e[0] == 'agg' and e[1] == N.OPTION + '::None':
        return ('none',)
    if e[0] == 'agg' and e[1] == N.OPTION + '::Some' and e[2] and strip_casts(e[2][0])[0] == 'const':
        return ('some', strip_casts(e[2][0])[1])
    return None


def policy_from_str_table(ctx):
    """string -> variant table of <EvictionPolicy as From<&str>>::from, read off its MIR"""
    body = None
    for b in ctx.core.bodies.values():
        if b.name == '<cachelito_core::eviction_policy::EvictionPolicy as core::convert::From>::from':
            body = b
    if body is None:
        return None
    table = {}
    default = None
    for bi, t in body.calls():
        cn = callee_name(t)
        if 'PartialEq' in cn and t['callee'].get('self_ty') in ('str', '&str'):
            s = None
            for a in t['args']:
                if 'const' in a and 'str' in a['const']:
                    s = a['const']['str']
            if s is None:
                ex = Expr(body)
                for a in t['args']:
                    e = ex.operand(a)
                    if e[0] == 'const' and isinstance(e[1], str):
                        s = e[1]
            if s is None:
                continue
            # follow the true edge to the assignment of _0
            cur = t['target']
            seen = set()
            var = None
            truth = True
            while cur is not None and cur not in seen and var is None:
                seen.add(cur)
                bl = body.blocks[cur]
                for st in bl['stmts']:
                    if st['k'] == 'assign' and st['dst']['l'] == 0 and 'agg' in st['rv'] and isinstance(st['rv']['agg'], dict):
                        var = st['rv']['agg'].get('variant')
                tm = bl['term']
                if var is not None:
                    break
                if tm['k'] == 'switch':
                    # true edge = not the 0 target
                    nxt = tm['otherwise']
                    for v, tb in tm['targets']:
                        if v != 0:
                            nxt = tb
                    cur = nxt
                elif tm['k'] == 'goto':
                    cur = tm['target']
                else:
                    cur = None
            if var:
                table[s] = var
    return table


def check_wrapper_config(run, ctx, rules=('C19', 'C14')):
    """C19-W1 configuration identity; C14-W1 scope selects the branch and the matching kind of statics"""
    n = 0
    ptab = policy_from_str_table(ctx)
    if 'C19' in rules:
        want = {'fifo': 'FIFO', 'lru': 'LRU', 'lfu': 'LFU', 'arc': 'ARC', 'random': 'Random', 'tlru': 'TLRU'}
        if ptab is None:
            run.bad('C19-W1', 'policy-table/fail-closed', 'fail-closed: <EvictionPolicy as From<&str>>::from not found')
        else:
            for s_, v in want.items():
                if s_ in ('lru',) and s_ not in ptab:
                    run.ok('C19-W1', 'policy-table/%s' % s_, '"%s" falls through to the default arm (LRU)' % s_)
                elif ptab.get(s_) != v:
                    run.bad('C19-W1', 'policy-table/%s' % s_, 'EvictionPolicy::from("%s") yields %s, not %s: async functions get a different policy than written' % (s_, ptab.get(s_), v),
                            site='cachelito_core::eviction_policy', oracle='the six policy names map to the same-named variant')
                else:
                    run.ok('C19-W1', 'policy-table/%s' % s_, '"%s" -> %s' % (s_, v))
    for (w, sites, res) in wrapper_scenarios(ctx):
        if w.body is None or not sites or len(sites.get('new', [])) != 1:
            continue
        ex = w.ex
        nb, nt = sites['new'][0]
        cn = callee_name(nt)
        adt = cn.rsplit('::', 1)[0]
        names = NEW_ARGS.get(adt)
        n += 1
        e = w.e
        scope_expected = {'Global': N.GLOBAL, 'ThreadLocal': N.THREAD, 'Async': N.ASYNC}[e['scope']]
        if 'C14' in rules:
            if adt != scope_expected:
                run.bad('C14-W1', _fx_key(w, 'scope-branch'), 'scope attribute of %s says %s but the selected branch builds %s' % (w.path, e['scope'], adt.rsplit('::', 1)[-1]), site=w.path,
                        oracle='scope attribute selects ThreadLocalCache (thread) / GlobalCache (global, default) / AsyncGlobalCache')
            else:
                # statics: thread -> LocalKey consts; global/async -> process statics; all owned by this function
                probs = []
                for i in (0, 1):
                    se = ex.operand(nt['args'][i])
                    sid = se[1] if se[0] == 'static' else None
                    info = ctx.prog.statics.get(sid) if sid else None
                    if info is None:
                        probs.append('argument %d (%s) is not a static of the function' % (i, show(se)))
                        continue
                    is_tl = info['kind'] == 'const' and info['ty'].startswith(N.LOCALKEY + '<')
                    if (adt == N.THREAD) != is_tl:
                        probs.append('%s store built on a %s' % ('thread-scope' if adt == N.THREAD else 'global-scope', 'thread-local key' if is_tl else 'process static'))
                    if info.get('parent_fn') != w.body.id:
                        probs.append('static %s belongs to %s, not to this function' % (sid, info.get('parent_fn')))
                if probs:
                    run.bad('C14-W1', _fx_key(w, 'statics'), '%s: %s' % (w.path, '; '.join(probs)), site=w.path, oracle='thread scope on thread_local! keys, global scope on process statics, one store per function')
                else:
                    run.ok('C14-W1', w.path, '%s on %s statics owned by the function' % (adt.rsplit('::', 1)[-1], 'thread-local' if adt == N.THREAD else 'process'))
        if 'C19' in rules and names:
            probs = []
            for i, nm in enumerate(names):
                if i >= len(nt['args']):
                    probs.append('missing constructor argument %s' % nm)
                    continue
                ae = ex.operand(nt['args'][i])
                if nm in ('limit', 'ttl', 'max_memory'):
                    got = _opt_const(ae)
                    wantv = ('none',) if e[nm] is None else ('some', e[nm])
                    if got != wantv:
                        probs.append('%s: constructor receives %s, attribute says %s' % (nm, show(ae), e[nm]))
                elif nm == 'frequency_weight':
                    got = _opt_const(ae)
                    wantv = ('none',) if e[nm] is None else ('some', float(e[nm]))
                    if got is None or (got[0] == 'some' and (wantv[0] != 'some' or abs(float(got[1]) - wantv[1]) > 1e-12)) or (got[0] == 'none' and wantv[0] != 'none'):
                        probs.append('frequency_weight: constructor receives %s, attribute says %s' % (show(ae), e[nm]))
                elif nm == 'policy':
                    a2 = strip_casts(ae)
                    got = None
                    if a2[0] == 'agg' and a2[1].startswith(N.POLICY + '::'):
                        got = a2[1].rsplit('::', 1)[-1]
                    elif a2[0] == 'call' and (a2[4].get('resolved') or '').startswith('<cachelito_core::eviction_policy::EvictionPolicy as core::convert::From<&str>>'):
                        s_ = a2[2][0]
                        if s_[0] == 'const' and isinstance(s_[1], str) and ptab is not None:
                            got = ptab.get(s_[1].lower(), 'LRU')
                    if got != e['policy']:
                        probs.append('policy: constructor receives %s, attribute says %s' % (got or show(ae), e['policy']))
            if probs:
                run.bad('C19-W1', _fx_key(w, 'config'), '%s [%s]: %s' % (w.path, ', '.join('%s = %s' % (a, b) for a, b in e['attrs']), '; '.join(probs)), site=w.path,
                        oracle='constructor constants equal the attribute values (KB/MB/GB powers of 1024)')
            else:
                run.ok('C19-W1', w.path, 'limit=%s ttl=%s max_memory=%s policy=%s fw=%s' % (e['limit'], e['ttl'], e['max_memory'], e['policy'], e['frequency_weight']))
    return n


# ------------------------------------------------------------------------------------------------
TO_KEY = 'cachelito_core::keys::CacheableKey::to_cache_key'
NEW_DEBUG = 'core::fmt::rt::Argument::new_debug'
PUSH = 'alloc::vec::Vec::push'
JOIN = 'alloc::slice::<impl [T]>::join'
SAFE_SEP_FORBIDDEN = set('abcdefghijklmnopqrstuvwxyzABCDEFGHIJKLMNOPQRSTUVWXYZ0123456789_ .,:+-()[]{}"\'\\')


def _key_parts(w, key_expr):
    """[part expression] in order, separator or None, problems"""
    ex = w.ex
    body = w.body
    e = strip_casts(key_expr)
    probs = []
    if e[0] == 'call' and e[1] == JOIN:
        sep = e[2][1]
        sepv = sep[1] if sep[0] == 'const' else None
        # the vector joined: find pushes onto the same local
        vec = e[2][0]
        parts = []
        for b, t in sorted(body.calls(), key=lambda x: x[0]):
            if callee_name(t) == PUSH and ex.operand(t['args'][0]) == vec:
                parts.append((b, ex.operand(t['args'][1])))
        return [p for (_, p) in parts], sepv, probs
    if e[0] == 'call' and e[1] == 'alloc::string::String::new':
        return [], None, probs
    return [e], None, probs


def _part_source(w, part):
    """('debug'|'display'|'cache_key'|'?', normalised source expression)"""
    p = strip_casts(part)
    if p[0] == 'call' and p[1] == 'core::hint::must_use':
        p = strip_casts(p[2][0])
    if p[0] == 'call' and p[1] == TO_KEY:
        return 'cache_key', w.norm(p[2][0])
    if p[0] == 'call' and p[1] == 'alloc::fmt::format':
        fmts = [c for c in calls_in(p) if c[1].startswith('core::fmt::rt::Argument::new_')]
        if len(fmts) == 1:
            kind = fmts[0][1].rsplit('::new_', 1)[-1]
            from .fmt_template import template_of, lossy
            tpl = template_of(p)
            phs = [x[1] for x in (tpl or []) if x[0] == 'ph']
            if tpl is None or len(phs) != 1 or phs[0]['arg'] not in (None, 0):
                return 'an unreadable format template', w.norm(fmts[0][2][0])
            if lossy(phs[0]):
                return 'a lossy format spec (%s)' % lossy(phs[0]), w.norm(fmts[0][2][0])
            return ('debug' if kind == 'debug' else kind), w.norm(fmts[0][2][0])
        return '?', p
    return '?', p


def check_key_builder(run, ctx):
    """C02-W1 every parameter (receiver first) contributes exactly one Debug-rendered part, in order; C02-W2 separator safety"""
    n = 0
    for (w, sites, res) in wrapper_scenarios(ctx):
        if w.body is None or not sites or len(sites.get('get', [])) != 1:
            run.bad('C02-W1', _fx_key(w, 'shape'), 'generated wrapper of %s does not have exactly one lookup on the selected branch (get=%d): its key cannot be judged'
                    % (w.path, len((sites or {}).get('get', []))), site=w.path)
            continue
        n += 1
        gb, gt = sites['get'][0]
        key = w.ex.operand(gt['args'][1])
        parts, sep, probs = _key_parts(w, key)
        nparams = len(w.e['params']) + (1 if w.e['receiver'] else 0)
        want_kind = 'debug' if w.is_async else 'cache_key'
        srcs = []
        for p in parts:
            kind, src = _part_source(w, p)
            if kind != want_kind:
                probs.append('a key part is rendered with %s instead of %s: %s' % (kind, 'Debug ({:?})' if w.is_async else 'CacheableKey::to_cache_key', show(p)))
            srcs.append(src)
        want = [w.param_expr(i) for i in range(1, nparams + 1)]
        if [s for s in srcs] != want:
            probs.append('key parts come from %s, expected each parameter once in order %s' % ([show(s) for s in srcs], [show(x) for x in want]))
        if len(parts) >= 2 or (len(parts) == 1 and sep is not None):
            if sep is None or sep == '':
                probs.append('parts are joined with an empty separator: (1, 23) and (12, 3) share a key')
            elif any(ch in SAFE_SEP_FORBIDDEN for ch in sep):
                probs.append('separator %r can occur unquoted inside a Debug rendering' % sep)
        if nparams >= 2 and sep is None:
            probs.append('%d parts but no join with a separator' % nparams)
        if probs:
            run.bad('C02-W1' if not any('separator' in p for p in probs) else 'C02-W2', _fx_key(w, 'key-builder'),
                    'key of %s: %s' % (w.path, '; '.join(probs)), site=w.path, oracle='one Debug-rendered part per parameter (receiver first), joined by "|"')
        else:
            run.ok('C02-W1', w.path, '%d part(s)%s' % (len(parts), ', separator %r' % sep if sep else ''))
    return n


# ------------------------------------------------------------------------------------------------
REGISTER = 'cachelito_core::invalidation::InvalidationRegistry::register'
REGISTER_CB = 'cachelito_core::invalidation::InvalidationRegistry::register_callback'
REGISTER_CHECK = 'cachelito_core::invalidation::InvalidationRegistry::register_invalidation_callback'
STATS_REGISTER = 'cachelito_core::stats_registry::register'
META_NEW = 'cachelito_core::invalidation::InvalidationMetadata::new'


def _string_consts(body, operand, ex=None):
    """string constants in the backward slice of an operand (def-use closure incl. writes through projections)"""
    seen = set()
    out = []
    todo = []
    p = operand.get('move') or operand.get('copy')
    if p is None:
        if 'const' in operand and 'str' in operand['const']:
            return [operand['const']['str']]
        return []
    todo.append(p['l'])
    while todo:
        l = todo.pop()
        if l in seen:
            continue
        seen.add(l)
        for bi, bl in enumerate(body.blocks):
            if bl['cleanup']:
                continue
            for si, st in enumerate(bl['stmts']):
                if st['k'] == 'assign' and st['dst']['l'] == l:
                    for o in _rv_operands(st['rv']):
                        if 'const' in o and 'str' in o['const']:
                            out.append((bi, si, o['const']['str']))
                        q = o.get('move') or o.get('copy')
                        if q is not None:
                            todo.append(q['l'])
                    for pl in _rv_places(st['rv']):
                        todo.append(pl['l'])
                # writes *through* l (l is a pointer/box to the array being filled)
            t = bl['term']
            if t['k'] == 'call' and t['dst']['l'] == l:
                for a in t['args']:
                    if 'const' in a and 'str' in a['const']:
                        out.append((bi, 999, a['const']['str']))
                    q = a.get('move') or a.get('copy')
                    if q is not None:
                        todo.append(q['l'])
        # statements that write through a projection of a local derived from l are found because dst.l == l
    out.sort()
    return [s for (_, _, s) in out]


def _rv_operands(rv):
    if 'use' in rv:
        return [rv['use']]
    if 'cast' in rv:
        return [rv['cast']]
    if 'agg' in rv:
        return list(rv['ops'])
    if 'bin' in rv:
        return [rv['a'], rv['b']]
    if 'un' in rv:
        return [rv['a']]
    if 'repeat' in rv:
        return [rv['repeat']]
    return []


def _rv_places(rv):
    for k in ('ref', 'rawptr', 'discr'):
        if k in rv:
            return [rv[k]]
    return []


def check_registration(run, ctx, rules=('C12', 'C15')):
    """C12-W1 metadata + clear-callback registration; C15-W1 stats registration"""
    n = 0
    prog = ctx.prog
    for (w, sites, res) in wrapper_scenarios(ctx):
        if w.body is None or not sites:
            continue
        e = w.e
        grouped = bool(e['tags'] or e['events'] or e['dependencies'])
        is_global = e['scope'] in ('Global', 'Async')
        if not is_global:
            continue
        reach = w.selected()
        onces = [(b, t) for (b, t) in sites.get('once', []) if b in reach]
        # closures run by the once calls
        reg = {'register': [], 'register_cb': [], 'register_check': [], 'stats': []}
        for (b, t) in onces:
            for cb in prog.closures_passed(t):
                for b2, t2 in cb.calls():
                    cn = callee_name(t2)
                    if cn == REGISTER:
                        reg['register'].append((cb, b2, t2, b))
                    elif cn == REGISTER_CB:
                        reg['register_cb'].append((cb, b2, t2, b))
                    elif cn == REGISTER_CHECK:
                        reg['register_check'].append((cb, b2, t2, b))
                    elif cn == STATS_REGISTER:
                        reg['stats'].append((cb, b2, t2, b))
        gb = sites['get'][0][0] if sites.get('get') else None
        n += 1
        if 'C15' in rules:
            probs = []
            if len(reg['stats']) != 1:
                probs.append('%d stats registrations' % len(reg['stats']))
            else:
                cb, b2, t2, ob = reg['stats'][0]
                ex2 = Expr(cb)
                nm = ex2.operand(t2['args'][0])
                st_ = ex2.operand(t2['args'][1])
                if not (nm[0] == 'const' and nm[1] == e['name']):
                    probs.append('registered under %s, expected "%s"' % (show(nm), e['name']))
                # same static as passed to the cache
                newt = sites['new'][0][1]
                passed = w.ex.operand(newt['args'][-1])
                if st_[0] != 'static' or passed[0] != 'static' or st_[1] != passed[1]:
                    probs.append('registered stats %s is not the static passed to the cache (%s)' % (show(st_), show(passed)))
                if gb is not None and not w.body.dominates(ob, gb):
                    probs.append('registration does not dominate the lookup')
            if probs:
                run.bad('C15-W1', _fx_key(w, 'stats-registration'), '%s: %s' % (w.path, '; '.join(probs)), site=w.path,
                        oracle='stats_registry::register(name attribute or function name, &STATS) before the first lookup, STATS being the cache\'s own')
            else:
                run.ok('C15-W1', w.path, 'stats registered as "%s"' % e['name'])
        if 'C12' in rules:
            probs = []
            if grouped:
                if len(reg['register']) != 1 or len(reg['register_cb']) != 1:
                    probs.append('%d metadata registrations and %d clear-callback registrations (expected one each)' % (len(reg['register']), len(reg['register_cb'])))
                else:
                    cb, b2, t2, ob = reg['register'][0]
                    ex2 = Expr(cb)
                    nm = ex2.operand(t2['args'][1])
                    if not (nm[0] == 'const' and nm[1] == e['name']):
                        probs.append('metadata registered under %s, expected "%s"' % (show(nm), e['name']))
                    meta = ex2.operand(t2['args'][2])
                    mcalls = [(bb_, tt) for bb_, tt in cb.calls() if callee_name(tt) == META_NEW]
                    if len(mcalls) != 1:
                        probs.append('no InvalidationMetadata::new')
                    else:
                        mt = mcalls[0][1]
                        for i, k in enumerate(('tags', 'events', 'dependencies')):
                            got = _string_consts(cb, mt['args'][i])
                            if got != e[k]:
                                probs.append('%s registered as %s, attribute says %s' % (k, got, e[k]))
                    cb3, b3, t3, ob3 = reg['register_cb'][0]
                    nm3 = Expr(cb3).operand(t3['args'][1])
                    if not (nm3[0] == 'const' and nm3[1] == e['name']):
                        probs.append('clear callback registered under %s, expected "%s"' % (show(nm3), e['name']))
                    if gb is not None and not (w.body.dominates(ob, gb) and w.body.dominates(ob3, gb)):
                        probs.append('registration does not dominate the lookup')
            else:
                if reg['register'] or reg['register_cb']:
                    probs.append('function without tags/events/dependencies registers invalidation metadata')
            if len(reg['register_check']) != 1:
                probs.append('%d conditional-invalidation callback registrations (expected 1)' % len(reg['register_check']))
            else:
                cb4, b4, t4, ob4 = reg['register_check'][0]
                nm4 = Expr(cb4).operand(t4['args'][1])
                if not (nm4[0] == 'const' and nm4[1] == e['name']):
                    probs.append('conditional callback registered under %s, expected "%s"' % (show(nm4), e['name']))
            if probs:
                run.bad('C12-W1', _fx_key(w, 'registration'), '%s: %s' % (w.path, '; '.join(probs)), site=w.path,
                        oracle='register(name, Metadata(tags, events, deps)) and register_callback(name, clear) inside a Once that dominates the lookup')
            else:
                run.ok('C12-W1', w.path, 'registered as "%s" tags=%s events=%s deps=%s' % (e['name'], e['tags'], e['events'], e['dependencies']) if grouped else 'no group metadata, conditional callback registered')
    return n


def check_callbacks(run, ctx, rules=('C12', 'C13')):
    """C12-W2 clear callback empties store and queue of its own function and nothing else;
    C13-W1 conditional callback removes exactly the collected keys from store and queue; C13-W2 own statics only"""
    from .effects import classify, Effects
    prog = ctx.prog
    eff = Effects(prog)
    n = 0
    for kind in ('clear', 'check'):
        for (cb, regbody, blk) in prog.registered[kind]:
            role = ctx.role(cb)
            if role is None:
                continue
            n += 1
            # owner function = the fixture wrapper this closure is nested in
            owner = cb
            while owner is not None and owner.name not in ctx.expect:
                owner = prog.bodies.get(owner.parent)
            owner_body_ids = set()
            if owner is not None:
                owner_body_ids = {owner.id} | {d.id for d in owner.crate.descendants(owner)}
            scope = [cb] + cb.crate.descendants(cb)
            statics = set()
            for x in scope:
                for bl in x.blocks:
                    for st in bl['stmts']:
                        if st['k'] == 'assign':
                            for o in _rv_operands(st['rv']):
                                if 'const' in o and 'static' in o['const']:
                                    statics.add(o['const']['static'])
                    t = bl['term']
                    for a in t.get('args', []) if t['k'] == 'call' else []:
                        if 'const' in a and 'static' in a['const']:
                            statics.add(a['const']['static'])
            foreign = [s for s in statics if prog.statics.get(s, {}).get('parent_fn') not in owner_body_ids]
            rule2 = 'C13-W2'
            if ('C13' in rules) or ('C12' in rules and kind == 'clear'):
                if foreign:
                    run.bad(rule2, 'generated:%s/foreign-statics' % role, 'a %s callback of %s touches statics of another function: %s' % (kind, owner.name if owner else '?', foreign),
                            site=cb.name, oracle='callbacks reference only the statics of the function they were registered for')
                else:
                    run.ok(rule2, cb.name, '%d static(s), all owned by %s' % (len(statics), owner.name if owner else '?'))
            kinds = defaultdict(int)
            for x in scope:
                for (b, k, t) in eff.prim(x):
                    kinds[k] += 1
            if kind == 'clear' and 'C12' in rules:
                ok = kinds.get('S0', 0) == 1 and kinds.get('Q0', 0) == 1 and not any(k in kinds for k in ('S+', 'S-', 'Q>', 'Q<', 'Q-at', 'Q-key', 'Q-front', 'Q-back'))
                if ok:
                    run.ok('C12-W2', cb.name, 'clears store and queue')
                else:
                    run.bad('C12-W2', 'generated:%s/clear-shape' % role, 'the clear callback must empty the store and the order queue and do nothing else; found effects %s' % dict(kinds),
                            site=cb.name, oracle='S0 and Q0 on the function\'s own statics')
            if kind == 'check' and 'C13' in rules:
                probs = _check_conditional_callback(ctx, cb, eff)
                if probs:
                    run.bad('C13-W1', 'generated:%s/conditional-shape' % role, 'conditional-invalidation callback: %s' % '; '.join(probs), site=cb.name,
                            oracle='collect keys satisfying the predicate; remove exactly those from store and queue')
                else:
                    run.ok('C13-W1', cb.name, 'removes exactly the predicate-selected keys from store and queue')
    return n


def _check_conditional_callback(ctx, cb, eff):
    from .effects import classify
    prog = ctx.prog
    probs = []
    ex = Expr(cb)
    prim = eff.prim(cb)
    kinds = defaultdict(list)
    for (b, k, t) in prim:
        kinds[k].append((b, t))
    for k in ('S0', 'Q0', 'S+', 'Q>', 'Q<', 'Q-front', 'Q-back', 'Q-key'):
        if kinds.get(k):
            probs.append('unexpected effect %s' % k)
    if len(kinds.get('S-', [])) != 1 or len(kinds.get('Q-at', [])) != 1:
        probs.append('expected one store removal and one positional queue removal per key, found S-=%d Q-at=%d' % (len(kinds.get('S-', [])), len(kinds.get('Q-at', []))))
        return probs
    sb, st = kinds['S-'][0]
    qb, qt = kinds['Q-at'][0]
    # the removed key is the loop variable over the collected vector
    key = ex.operand(st['args'][1])
    root, names = field_path(strip_casts(key))
    loop_next = root if (root[0] == 'call' and root[1].endswith('Iterator::next')) else None
    if loop_next is None:
        probs.append('the removed key is not an element of the collected key list: %s' % show(key))
        return probs
    # iterated collection: collect() of a filter over the store keys with the dyn predicate
    src = loop_next
    colls = [c for c in calls_in(src) if c[1] == 'core::iter::traits::iterator::Iterator::collect']
    if not colls:
        probs.append('the loop does not range over a collected key list')
        return probs
    coll = colls[0]
    filt = [c for c in calls_in(coll) if c[1] == 'core::iter::traits::iterator::Iterator::filter']
    srcs = [c for c in calls_in(coll) if c[1] in (N.HM + 'keys', N.DM + 'iter', N.HM + 'iter')]
    if len(filt) != 1 or not srcs:
        probs.append('keys are not collected by filtering the store with the predicate')
        return probs
    # the filter closure calls the dyn predicate (the callback's parameter) exactly once and returns its value
    fcl = filt[0][4].get('closures') or []
    called = 0
    for cid in fcl:
        fb = prog.bodies.get(cid)
        if fb is None:
            continue
        for b2, t2 in fb.calls():
            if prog.dyn_call_kind(fb, t2) == 'user':
                called += 1
                # result returned directly
                fex = Expr(fb)
                rets = [fex._def(d, 0) for d in fb.defs.get(0, [])]
                if not all(r[0] == 'call' and r[3] == b2 for r in rets):
                    probs.append('the filter does not return the predicate\'s verdict unchanged (negated or combined)')
    if called != 1:
        probs.append('the key predicate is called %d time(s) in the filter' % called)
    # queue removal: position(== same key) on the queue
    pos = ex.operand(qt['args'][1])
    pr, pn = field_path(strip_casts(pos))
    if not (pr[0] == 'call' and pr[1] == 'core::iter::traits::iterator::Iterator::position'):
        probs.append('queue removal index does not come from position(== key)')
    else:
        pcl = pr[4].get('closures') or []
        okk = False
        for cid in pcl:
            pb = prog.bodies.get(cid)
            if pb is None:
                continue
            par, ops = prog.closure_capture_operands(pb)
            if ops:
                capt = [ex.operand(o) for o in ops]
                if any(strip_casts(c) == strip_casts(key) or field_path(strip_casts(c))[0] == loop_next for c in capt):
                    okk = True
        if not okk:
            probs.append('the queue position is not searched for the key being removed')
    # both removals in the same loop iteration: the store removal dominates the queue removal or vice versa
    if not (cb.dominates(sb, qb) or cb.dominates(qb, sb)):
        probs.append('store and queue removal are not on the same path')
    return probs


# ------------------------------------------------------------------------------------------------
def check_async_effect_order(run, ctx, rule='C20-W1'):
    """C20-W1: every store in a generated coroutine is dominated by the delivery of the body's value;
    nothing but registration and the lookup touches the cache before the first suspension"""
    n = 0
    for (w, sites, res) in wrapper_scenarios(ctx):
        if not w.is_async or w.body is None or not sites:
            continue
        body = w.body
        n += 1
        ready = []
        for b, t in body.calls():
            if callee_name(t) == POLL:
                sw = t['target']
                seen = set()
                while sw is not None and body.term(sw)['k'] == 'goto' and sw not in seen:
                    seen.add(sw)
                    sw = body.term(sw)['target']
                st = body.term(sw) if sw is not None else None
                if st and st['k'] == 'switch':
                    for v, tb in st['targets']:
                        if v == 0:
                            ready.append(tb)
        yields = [b for b in range(body.n) if body.term(b)['k'] == 'yield' and not body.blocks[b]['cleanup']]
        probs = []
        if not ready or not yields:
            probs.append('cannot find the poll loop of the body future')
        for (sb, st) in sites.get('store', []):
            if not any(body.dominates(r, sb) for r in ready):
                probs.append('a store (bb%d) is reachable before the body\'s value exists' % sb)
            if any(y in body.reachable(sb) for y in yields):
                probs.append('a store (bb%d) can be followed by a suspension point' % sb)
        for (gb, gt) in sites.get('get', []):
            if any(gb in body.reachable(y) for y in yields):
                probs.append('the lookup can run after a suspension')
        # the wrapper itself must not touch the store / queue statics: only the cache object's get / insert* do
        from .effects import classify as _cls
        for b, t in body.calls():
            k = _cls(t)
            if k and not k.startswith(('hit', 'miss')):
                where_ = 'before the body is awaited' if any(y in body.reachable(b) for y in yields) else 'after the body'
                probs.append('the generated wrapper performs %s on the cache statics directly (%s, %s)' % (k, callee_name(t).rsplit('::', 1)[-1], where_))
        if probs:
            run.bad(rule, _fx_key(w, 'effect-order'), '%s: %s' % (w.path, '; '.join(sorted(set(probs)))), site=w.path,
                    oracle='stores dominated by the Ready edge of the body future; no cache mutation before it; the wrapper touches the cache only through get / insert*')
        else:
            run.ok(rule, w.path, '%d store(s) dominated by Poll::Ready of the body' % len(sites.get('store', [])))
    return n


def check_send_witness(run, ctx):
    from . import gen_witness
    return gen_witness.judge(run, ctx, 'C20-T1')


def check_stats_registration(run, ctx):
    return check_registration(run, ctx, rules=('C15',))


def check_memory_store_selected(run, ctx):
    n, fams = check_wrapper_flow(run, ctx, rules=('C05',))
    return n


def check_wrapper_no_direct_stats(run, ctx, rule='C15-W2'):
    """the lookup records its own hit / miss; a wrapper that records as well counts one lookup twice"""
    from .effects import classify as _cls
    n = 0
    for w in wrappers(ctx):
        if w.body is None:
            continue
        n += 1
        hits = []
        for x in [w.body] + [c for c in w.body.crate.descendants(w.body) if ctx.role(c) and ctx.role(c).endswith(':wrapper')]:
            for b, t in x.calls():
                if _cls(t) in ('hit', 'miss'):
                    hits.append((x, b, _cls(t)))
        if hits:
            x, b, k = hits[0]
            run.bad(rule, _fx_key(w, 'wrapper-records-%s' % k), 'the generated wrapper of %s calls record_%s itself (%s): the lookup has already been counted, so hits + misses exceeds the '
                    'number of lookups' % (w.path, k, x.loc(b)), site=w.path, oracle='exactly one record per lookup, made by the cache')
        else:
            run.ok(rule, w.path, 'no statistics call in the wrapper')
    # no generated code at all (wrappers, clear / check callbacks, registration closures) calls a CacheStats method: the counters
    # change only through the lookups of the cache itself and through stats_registry::reset(name) called by the user
    m = 0
    for crate in (ctx.fx_sync, ctx.fx_async):
        for b in crate.bodies.values():
            role = ctx.role(b)
            if role is None:
                continue
            m += 1
            for bi, t in b.calls():
                cn = callee_name(t)
                if cn.startswith(N.STATS + '::') and cn.rsplit('::', 1)[-1] not in ('new', 'default'):
                    run.bad(rule, '%s/calls-%s' % (ctx.label(b), cn.rsplit('::', 1)[-1]), 'generated code (%s, %s) calls CacheStats::%s: the statistics of a cache then change without a lookup '
                            '(e.g. an invalidation zeroes the counters, so hits + misses no longer equals the lookups performed)' % (role, b.loc(bi), cn.rsplit('::', 1)[-1]),
                            site='%s (%s)' % (b.name, b.loc(bi)), oracle='generated code only registers the statistics; it never records or resets')
    run.require(rule, 'generated bodies scanned for statistics calls', m, 1000)
    return n


# ------------------------------------------------------------------------------------------------
# thorough tier: the repository's own decorated functions (no attribute expectations available)
# ------------------------------------------------------------------------------------------------
class RepoWrap(Wrap):
    """a decorated function of the repository's tests / examples: parameters from its signature, predicates inferred
    (a call in the wrapper, outside the body closure, to a non-library function whose first argument is the key)"""

    def __init__(self, ctx, crate, root):
        self.ctx = ctx
        self.prog = ctx.u5_prog
        self.is_async = root.kind == 'coroutine'
        self.body = root
        self.fn = self.prog.bodies.get(root.parent) if self.is_async else root
        self.path = (self.fn.name if self.fn else root.name)
        self.crate = crate.name
        self._ex = None
        nin = len(self.fn.js.get('inputs') or []) if self.fn else 0
        self.e = {'macro': 'async' if self.is_async else 'sync', 'params': ['?'] * nin, 'receiver': None, 'cache_if': None, 'invalidate_on': None,
                  'family': 'repo', 'attrs': [], 'ret': ''}
        self._pred_blocks = {}
        self._infer_predicates()

    def _infer_predicates(self):
        reach = Spec(self.prog, self.body, {}).reachable_blocks()
        gets = [(b, t) for b, t in self.body.calls() if b in reach and any(callee_name(t) == adt + '::get' for adt in N.CACHE_ADTS)]
        if len(gets) != 1:
            return
        key = _unclone(self.ex.operand(gets[0][1]['args'][1]))
        for b, t in self.body.calls():
            if b not in reach:
                continue
            cn = callee_name(t)
            if cn.startswith(('core::', 'alloc::', 'std::', 'cachelito_core::', 'once_cell::', 'parking_lot::', 'dashmap::', 'lock_api::')) or len(t['args']) != 2:
                continue
            if not t['callee'].get('id'):
                continue
            a0 = _unclone(self.ex.operand(t['args'][0]))
            if a0 != key:
                continue
            a1 = self.ex.operand(t['args'][1])
            kind = 'pred:invalidate_on' if _is_cached(a1, gets[0][0]) else 'pred:cache_if'
            self._pred_blocks[b] = kind
            self.e[kind.split(':')[1]] = cn

    def classify(self, t):
        k = Wrap.classify(self, t)
        if k:
            return k
        for b, kind in self._pred_blocks.items():
            if self.body.term(b) is t:
                return kind
        return None

    def selected(self):
        sp = Spec(self.prog, self.body, {})
        return sp.reachable_blocks()


def repo_wrappers(ctx):
    if not hasattr(ctx, '_repo_wrappers'):
        ctx.u5_generated()
        ws = []
        for crate, root in ctx._u5roots:
            try:
                ws.append(RepoWrap(ctx, crate, root))
            except Exception:
                continue
        ctx._repo_wrappers = ws
    return ctx._repo_wrappers


def check_repo_wrappers(run, ctx, rules):
    """apply the expectation-free wrapper rules to the repository's own decorated functions (thorough tier):
    flow scenarios (C03/C10/C11), key builder coverage (C02), dataflow (C01)"""
    saved_rows = getattr(ctx, '_wrap_rows', None)
    saved_ws = getattr(ctx, '_wrappers', None)
    try:
        ctx._wrappers = repo_wrappers(ctx)
        if hasattr(ctx, '_wrap_rows'):
            del ctx._wrap_rows
        n0 = len(run.instances)
        if 'C01' in rules:
            check_wrapper_dataflow(run, ctx, 'C01-W1')
        if 'C02' in rules:
            _repo_key_builder(run, ctx)
        flow = tuple(r for r in rules if r in ('C03', 'C10', 'C11'))
        if flow:
            check_wrapper_flow(run, ctx, rules=flow)
        run.note('repository-own decorated functions judged: %d wrappers, %d more instances' % (len(ctx._wrappers), len(run.instances) - n0))
        return len(ctx._wrappers)
    finally:
        if saved_rows is not None:
            ctx._wrap_rows = saved_rows
        elif hasattr(ctx, '_wrap_rows'):
            del ctx._wrap_rows
        if saved_ws is not None:
            ctx._wrappers = saved_ws


def _repo_key_builder(run, ctx):
    for (w, sites, res) in wrapper_scenarios(ctx):
        if w.body is None or not sites or len(sites.get('get', [])) != 1:
            continue
        gb, gt = sites['get'][0]
        key = w.ex.operand(gt['args'][1])
        parts, sep, probs = _key_parts(w, key)
        nparams = len(w.e['params'])
        want_kind = 'debug' if w.is_async else 'cache_key'
        srcs = []
        for p in parts:
            kind, src = _part_source(w, p)
            if kind != want_kind:
                probs.append('a key part is rendered with %s: %s' % (kind, show(p)))
            srcs.append(src)
        want = [w.param_expr(i) for i in range(1, nparams + 1)]
        if srcs != want:
            probs.append('key parts come from %s, expected each parameter once in order %s' % ([show(s) for s in srcs], [show(x) for x in want]))
        if nparams >= 2 and (sep is None or sep == '' or any(ch in SAFE_SEP_FORBIDDEN for ch in sep)):
            probs.append('unsafe or missing separator %r' % sep)
        if probs:
            run.bad('C02-W1', 'repo-own/%s/key-builder' % ('cache_async' if w.is_async else 'cache'), 'key of %s: %s' % (w.path, '; '.join(probs)), site=w.path,
                    oracle='one rendered part per parameter, in order, joined by a safe separator')
        else:
            run.ok('C02-W1', 'repo-own/' + w.path, '%d part(s)' % len(parts))
