def check_async_effect_order(run, ctx):
    pass
def check_send_witness(run, ctx):
    pass
def check_stats_registration(run, ctx):
    pass
def check_memory_store_selected(run, ctx):
    pass
