"""Compile-fail witnesses (U4): one Cargo package with one [[bin]] per case; every rejecting case
has a twin that differs only in the offending token and must compile.  The verdict is rustc's
(`cargo check --bins --keep-going --message-format=json`); a rejecting case must fail with the
macro's own message (substring), so an unrelated error cannot pass as a rejection."""
import json
import os
import subprocess

SYNC_HDR = '#![allow(warnings)]\nuse cachelito::cache;\n'
ASYNC_HDR = '#![allow(warnings)]\nuse cachelito_async::cache_async;\n'


def _sync(attr):
    return SYNC_HDR + '#[cache(%s)]\nfn f(x: i32) -> i32 { x }\nfn main() { let _ = f(1); }\n' % attr


def _sync_str(attr):
    return SYNC_HDR + '#[cache(%s)]\nfn f(x: i32) -> String { String::new() }\nfn main() { let _ = f(1); }\n' % attr


def _async(attr):
    return ASYNC_HDR + '#[cache_async(%s)]\nasync fn f(x: i32) -> i32 { x }\nfn main() { let _ = f(1); }\n' % attr


PRED = 'fn keep(_k: &String, _v: &i32) -> bool { true }\n'

# (name, property, rule, source, expect 'ok' | substring of the expected diagnostic, twin name or None)
CASES = []


def case(name, rule, src, expect, twin=None):
    CASES.append({'name': name, 'rule': rule, 'src': src, 'expect': expect, 'twin': twin})


def _pair(name, rule, mk, bad_attr, good_attr, msg):
    case(name + '_rej', rule, mk(bad_attr), msg, twin=name + '_ok')
    case(name + '_ok', rule, mk(good_attr), 'ok')


_pair('s_unknown_attr', 'C19-T1', _sync, 'foo = 1', 'limit = 1', 'Unknown attribute')
_pair('s_policy_unknown', 'C19-T1', _sync, 'policy = "mru"', 'policy = "lru"', 'Invalid policy')
_pair('s_policy_nonstring', 'C19-T1', _sync, 'policy = 3', 'policy = "lfu"', 'Invalid literal for `policy`')
_pair('s_scope_unknown', 'C19-T1', _sync, 'scope = "process"', 'scope = "thread"', 'Invalid scope')
_pair('s_scope_nonstring', 'C19-T1', _sync, 'scope = 1', 'scope = "global"', 'Invalid literal for `scope`')
_pair('s_limit_string', 'C19-T1', _sync, 'limit = "x"', 'limit = 7', 'Invalid literal for `limit`')
_pair('s_limit_negative', 'C19-T1', _sync, 'limit = -1', 'limit = 1', 'limit must be a valid positive integer')
_pair('s_limit_float', 'C19-T1', _sync, 'limit = 1.5', 'limit = 15', 'Invalid literal for `limit`')
_pair('s_ttl_string', 'C19-T1', _sync, 'ttl = "x"', 'ttl = 5', 'Invalid literal for `ttl`')
_pair('s_ttl_negative', 'C19-T1', _sync, 'ttl = -1', 'ttl = 1', 'ttl must be a positive integer')
_pair('s_mem_unit', 'C19-T1', _sync, 'max_memory = "10TB"', 'max_memory = "10MB"', 'Invalid format for max_memory')
_pair('s_mem_number', 'C19-T1', _sync, 'max_memory = "xMB"', 'max_memory = "2MB"', 'Invalid number format for max_memory')
_pair('s_mem_float', 'C19-T1', _sync, 'max_memory = 1.5', 'max_memory = 15', 'Invalid literal for `max_memory`')
_pair('s_tags_nonarray', 'C19-T1', _sync, 'tags = "a"', 'tags = ["a"]', 'Expected array of strings')
_pair('s_tags_nonstring', 'C19-T1', _sync, 'tags = [1]', 'tags = ["1"]', 'Array elements must be string literals')
_pair('s_events_nonstring', 'C19-T1', _sync, 'events = [true]', 'events = ["e"]', 'Array elements must be string literals')
_pair('s_fw_zero', 'C19-T1', _sync, 'policy = "tlru", frequency_weight = 0.0', 'policy = "tlru", frequency_weight = 0.5', 'frequency_weight must be > 0.0')
_pair('s_fw_string', 'C19-T1', _sync, 'frequency_weight = "x"', 'frequency_weight = 2.0', 'Invalid literal for `frequency_weight`')
case('s_invalidate_on_string_rej', 'C19-T1', SYNC_HDR + PRED + '#[cache(invalidate_on = "keep")]\nfn f(x: i32) -> i32 { x }\nfn main() { let _ = f(1); }\n',
     'Invalid syntax for `invalidate_on`', twin='s_invalidate_on_string_ok')
case('s_invalidate_on_string_ok', 'C19-T1', SYNC_HDR + PRED + '#[cache(invalidate_on = keep)]\nfn f(x: i32) -> i32 { x }\nfn main() { let _ = f(1); }\n', 'ok')
case('s_cache_if_int_rej', 'C19-T1', SYNC_HDR + PRED + '#[cache(cache_if = 1)]\nfn f(x: i32) -> i32 { x }\nfn main() { let _ = f(1); }\n',
     'Invalid syntax for `cache_if`', twin='s_cache_if_int_ok')
case('s_cache_if_int_ok', 'C19-T1', SYNC_HDR + PRED + '#[cache(cache_if = keep)]\nfn f(x: i32) -> i32 { x }\nfn main() { let _ = f(1); }\n', 'ok')
_pair('a_scope_rejected', 'C19-T1', _async, 'scope = "thread"', 'limit = 3', 'Unknown attribute')
_pair('a_unknown_attr', 'C19-T1', _async, 'bar = "x"', 'name = "x"', 'Unknown attribute')
_pair('a_policy_unknown', 'C19-T1', _async, 'policy = "mru"', 'policy = "arc"', 'Invalid policy')
_pair('a_policy_uppercase', 'C19-T1', _async, 'policy = "FIFO"', 'policy = "fifo"', 'Invalid policy')
_pair('s_policy_uppercase', 'C19-T1', _sync, 'policy = "Lru"', 'policy = "lru"', 'Invalid policy')
_pair('a_limit_string', 'C19-T1', _async, 'limit = "x"', 'limit = 2', 'Invalid literal for `limit`')
_pair('a_ttl_negative', 'C19-T1', _async, 'ttl = -1', 'ttl = 1', 'ttl must be a positive integer')
_pair('a_mem_unit', 'C19-T1', _async, 'max_memory = "10TB"', 'max_memory = "10GB"', 'Invalid format for max_memory')
_pair('a_tags_nonstring', 'C19-T1', _async, 'tags = [1]', 'tags = ["1"]', 'Array elements must be string literals')

STATICS = '''#![allow(warnings)]
use cachelito_core::{CacheEntry, EvictionPolicy, GlobalCache, ThreadLocalCache, CacheStats};
use once_cell::sync::Lazy;
use parking_lot::{Mutex, RwLock};
use std::cell::RefCell;
use std::collections::{HashMap, VecDeque};
static G_MAP: Lazy<RwLock<HashMap<String, CacheEntry<i32>>>> = Lazy::new(|| RwLock::new(HashMap::new()));
static G_ORDER: Lazy<Mutex<VecDeque<String>>> = Lazy::new(|| Mutex::new(VecDeque::new()));
static G_STATS: Lazy<CacheStats> = Lazy::new(|| CacheStats::new());
thread_local! {
    static T_MAP: RefCell<HashMap<String, CacheEntry<i32>>> = RefCell::new(HashMap::new());
    static T_ORDER: RefCell<VecDeque<String>> = RefCell::new(VecDeque::new());
}
'''
case('t_thread_on_process_static_rej', 'C14-T1', STATICS + 'fn main() { let c = ThreadLocalCache::<i32>::new(&G_MAP, &G_ORDER, None, None, EvictionPolicy::FIFO, None, None); let _ = c.get("k"); }\n',
     'E0308', twin='t_thread_on_process_static_ok')
case('t_thread_on_process_static_ok', 'C14-T1', STATICS + 'fn main() { let c = ThreadLocalCache::<i32>::new(&T_MAP, &T_ORDER, None, None, EvictionPolicy::FIFO, None, None); let _ = c.get("k"); }\n', 'ok')
case('t_global_on_thread_local_rej', 'C14-T1', STATICS + 'fn main() { let c = GlobalCache::<i32>::new(&T_MAP, &T_ORDER, None, None, EvictionPolicy::FIFO, None, None, &G_STATS); let _ = c.get("k"); }\n',
     'E0308', twin='t_global_on_thread_local_ok')
case('t_global_on_thread_local_ok', 'C14-T1', STATICS + 'fn main() { let c = GlobalCache::<i32>::new(&G_MAP, &G_ORDER, None, None, EvictionPolicy::FIFO, None, None, &G_STATS); let _ = c.get("k"); }\n', 'ok')

SEND = ASYNC_HDR + '''fn assert_send<T: Send>(_: T) {}
#[cache_async(limit = 3, policy = "lru", ttl = 60, tags = ["t"])]
async fn f(x: i32) -> String { std::future::ready(()).await; x.to_string() }
#[cache_async(max_memory = "2KB", policy = "tlru")]
async fn g(x: String, y: u64) -> Result<String, String> { std::future::ready(()).await; Ok(x) }
'''
case('send_generated_future_ok', 'C20-T1', SEND + 'fn main() { assert_send(f(1)); assert_send(g(String::new(), 2)); }\n', 'ok')
case('send_guard_across_await_rej', 'C20-T1', SEND + '''static M: parking_lot::Mutex<i32> = parking_lot::Mutex::new(0);
async fn h(x: i32) -> i32 { let g = M.lock(); std::future::ready(()).await; *g + x }
fn main() { assert_send(h(1)); }
''', 'cannot be sent between threads safely', twin='send_generated_future_ok')


def generate(outdir, repo='/repo'):
    os.makedirs(os.path.join(outdir, 'src', 'bin'), exist_ok=True)
    bins = []
    for c in CASES:
        with open(os.path.join(outdir, 'src', 'bin', c['name'] + '.rs'), 'w') as f:
            f.write(c['src'])
        bins.append('[[bin]]\nname = "%s"\npath = "src/bin/%s.rs"\n' % (c['name'], c['name']))
    with open(os.path.join(outdir, 'Cargo.toml'), 'w') as f:
        f.write('[package]\nname = "witness"\nversion = "0.0.0"\nedition = "2021"\nautobins = false\n\n[features]\ndefault = ["stats"]\nstats = []\n\n[dependencies]\n'
                'cachelito = { path = "%s" }\ncachelito-async = { path = "%s/cachelito-async" }\ncachelito-core = { path = "%s/cachelito-core" }\n'
                'once_cell = "1"\nparking_lot = "0.12"\ndashmap = "6.1"\n\n%s' % (repo, repo, repo, '\n'.join(bins)))


def run(ws, env, base):
    """compile every case; returns and stores {case: {'ok': bool, 'messages': [...]}}"""
    env = dict(env)
    env.pop('RUSTC_WRAPPER', None)
    env.pop('RUSTC_WORKSPACE_WRAPPER', None)
    env.pop('MIRFACTS_OUT', None)
    p = subprocess.run(['cargo', '+nightly', 'check', '--offline', '-p', 'witness', '--bins', '--keep-going', '--message-format=json'],
                       cwd=ws, env=env, text=True, capture_output=True)
    res = {c['name']: {'ok': None, 'messages': []} for c in CASES}
    for line in p.stdout.splitlines():
        try:
            m = json.loads(line)
        except ValueError:
            continue
        if m.get('reason') == 'compiler-message':
            tgt = m.get('target', {}).get('name')
            msg = m.get('message', {})
            if tgt in res and msg.get('level') == 'error':
                res[tgt]['messages'].append((msg.get('code') or {}).get('code', '') + ' ' + (msg.get('rendered') or msg.get('message') or '')[:1500])
                res[tgt]['ok'] = False
        elif m.get('reason') == 'compiler-artifact':
            tgt = m.get('target', {}).get('name')
            if tgt in res and 'bin' in m.get('target', {}).get('kind', []):
                if res[tgt]['ok'] is None:
                    res[tgt]['ok'] = True
    out = {'cases': res, 'cargo_exit': p.returncode, 'stderr_tail': p.stderr[-2000:]}
    with open(os.path.join(base, 'witness.json'), 'w') as f:
        json.dump(out, f)
    return out


def judge(run_, ctx, rule):
    """report the cases of one rule"""
    wit = ctx.witness
    n = 0
    if wit is None:
        run_.bad(rule, 'fail-closed/witness', 'fail-closed: witness results missing')
        return 0
    by_name = {c['name']: c for c in CASES}
    for c in CASES:
        if c['rule'] != rule:
            continue
        n += 1
        r = wit['cases'].get(c['name'])
        if r is None or r['ok'] is None:
            run_.bad(rule, 'fail-closed/witness/%s' % c['name'], 'fail-closed: witness case %s produced no verdict (cargo exit %s): %s' % (c['name'], wit.get('cargo_exit'), wit.get('stderr_tail', '')[-400:]))
            continue
        if c['expect'] == 'ok':
            if r['ok']:
                run_.ok(rule, 'witness/' + c['name'], 'compiles')
            else:
                run_.bad(rule, 'witness/%s/valid-rejected' % c['name'], 'a valid program no longer compiles (%s): %s' % (c['name'], ' | '.join(r['messages'])[:600]), site=c['name'],
                         oracle='compiling twin')
        else:
            if r['ok']:
                run_.bad(rule, 'witness/%s/accepted' % c['name'].replace('_rej', ''), 'an invalid program is accepted: case %s compiles although it must be rejected with "%s"' % (c['name'], c['expect']),
                         site=c['name'], oracle='rejected at compile time')
            elif not any(c['expect'] in m for m in r['messages']):
                run_.bad(rule, 'witness/%s/wrong-error' % c['name'].replace('_rej', ''), 'case %s fails to compile, but not with the expected diagnostic "%s": %s' % (
                    c['name'], c['expect'], ' | '.join(r['messages'])[:600]), site=c['name'])
            else:
                run_.ok(rule, 'witness/' + c['name'], 'rejected: %s' % c['expect'])
    return n
