"""Deterministic generator of the fixture corpus (U2 fx_sync, U3 fx_async) and of expect.json.

Bodies are never executed: the crates are only expanded and type-checked under the fact
extractor.  Expectations are computed here from the attribute list *as written*, by an
independent reading of the documentation (KB/MB/GB = powers of 1024, default policy fifo,
default scope global, name defaults to the function name)."""
import itertools
import json
import os
import random

POLICIES = ['fifo', 'lru', 'lfu', 'arc', 'random', 'tlru']
POLICY_VARIANT = {'fifo': 'FIFO', 'lru': 'LRU', 'lfu': 'LFU', 'arc': 'ARC', 'random': 'Random', 'tlru': 'TLRU'}

MEM_VALUES = [('"2KB"', 2 * 1024), ('"3MB"', 3 * 1024 ** 2), ('"1GB"', 1024 ** 3), ('"512"', 512), ('4096', 4096),
              ('"7kb"', 7 * 1024)]
FW_VALUES = [('0.3', 0.3), ('1.0', 1.0), ('1.5', 1.5), ('3', 3.0)]

# (type text, sample expression unused, needs lifetime)
PARAM_TYPES = ['i32', 'u64', 'bool', 'char', 'f64', 'String', '&str', '(i32, String)', 'Option<u8>', 'Vec<i32>', 'Uk',
               '&[u8]', 'u8', 'i64', 'usize', '(u8,)', 'Option<String>']

RESULT_SPELLINGS = [
    ('Result<i32, String>', True),
    ('std::result::Result<i32, String>', True),
    ('::std::result::Result<i32, String>', True),
    ('core::result::Result<i32, String>', True),
    ('MyResult', True),
    ('Res<i32>', True),
    ('Result<i32, errs::Failure>', True),
    ('Result<std::vec::Vec<u8>, std::string::String>', True),
    ('(Result<i32, String>)', True),
    ('Result::<i32, String>', True),
]
PLAIN_RETURNS = [('i32', False), ('String', False), ('Vec<u8>', False), ('Option<i32>', False), ('', False),
                 ('(i32, String)', False)]


def body_for(ret, is_async, awaits=1):
    pre = ''
    if is_async:
        pre = ' '.join(['std::future::ready(()).await;'] * awaits) + ' '
    if ret in ('', '()'):
        return '{ %s}' % pre
    if ret == 'i32':
        return '{ %s7 }' % pre
    if ret == 'String':
        return '{ %sString::from("v") }' % pre
    if ret == 'Vec<u8>':
        return '{ %svec![1u8, 2, 3] }' % pre
    if ret == 'Option<i32>':
        return '{ %sSome(7) }' % pre
    if ret == '(i32, String)':
        return '{ %s(7, String::new()) }' % pre
    if ret == 'std::io::Result<i32>':
        return '{ %sif std::hint::black_box(true) { Ok(7) } else { Err(std::io::Error::other("e")) } }' % pre
    if ret == 'Result<i32, errs::Failure>':
        return '{ %sif std::hint::black_box(true) { Ok(7) } else { Err(errs::Failure) } }' % pre
    if ret == 'Result<std::vec::Vec<u8>, std::string::String>':
        return '{ %sif std::hint::black_box(true) { Ok(vec![1u8]) } else { Err(String::from("e")) } }' % pre
    # Result spellings
    return '{ %sif std::hint::black_box(true) { Ok(7) } else { Err(String::from("e")) } }' % pre


class Fx:
    def __init__(self, macro, attrs, params, receiver, ret, family, awaits=1):
        self.macro = macro  # sync | async
        self.attrs = attrs  # ordered list of (name, source text)
        self.params = params  # list of type texts
        self.receiver = receiver  # None | '&self' | 'self'
        self.ret = ret  # return type spelling ('' = unit)
        self.family = family
        self.awaits = awaits
        self.name = None
        self.via_macro = False  # the decorated fn is produced by macro_rules! and its return type arrives as a `$ret:ty` fragment

    def attr(self, k):
        for n, v in self.attrs:
            if n == k:
                return v
        return None


def mem_bytes(src):
    for s, b in MEM_VALUES:
        if s == src:
            return b
    raise KeyError(src)


def rust_int(src):
    """value of a Rust integer literal: optional type suffix, underscores, 0x / 0o / 0b prefixes"""
    t = src
    for suf in ('usize', 'u64', 'u32', 'u16', 'u8', 'isize', 'i64', 'i32'):
        if t.endswith(suf):
            t = t[:-len(suf)]
            break
    return int(t.replace('_', ''), 0)


def expectations(fx):
    a = dict(fx.attrs)
    e = {}
    e['limit'] = rust_int(a['limit']) if 'limit' in a else None
    e['ttl'] = rust_int(a['ttl']) if 'ttl' in a else None
    e['max_memory'] = mem_bytes(a['max_memory']) if 'max_memory' in a else None
    e['policy'] = POLICY_VARIANT[a['policy'].strip('"')] if 'policy' in a else 'FIFO'
    e['frequency_weight'] = dict(FW_VALUES)[a['frequency_weight']] if 'frequency_weight' in a else None
    if fx.macro == 'sync':
        e['scope'] = {'"thread"': 'ThreadLocal', '"global"': 'Global'}[a['scope']] if 'scope' in a else 'Global'
    else:
        e['scope'] = 'Async'
    e['name'] = a['name'].strip('"') if 'name' in a else fx.name
    for k in ('tags', 'events', 'dependencies'):
        e[k] = json.loads(a[k]) if k in a else []
    e['cache_if'] = a.get('cache_if')
    e['invalidate_on'] = a.get('invalidate_on')
    e['params'] = list(fx.params)
    e['receiver'] = fx.receiver
    e['ret'] = fx.ret
    return e


def sig(fx):
    ps = []
    if fx.receiver:
        ps.append(fx.receiver)
    for i, t in enumerate(fx.params):
        if t.startswith('@'):
            ps.append(t[1:])  # written out pattern: type
        else:
            ps.append('p%d: %s' % (i, t))
    ret = (' -> ' + fx.ret) if fx.ret else ''
    kw = 'pub async fn' if fx.macro == 'async' else 'pub fn'
    return '%s %s(%s)%s' % (kw, fx.name, ', '.join(ps), ret)


def render(fx):
    mac = 'cache' if fx.macro == 'sync' else 'cache_async'
    al = ', '.join('%s = %s' % (n, v) for n, v in fx.attrs)
    attr = '#[%s(%s)]' % (mac, al) if fx.attrs else '#[%s]' % mac
    if fx.via_macro:
        ret = fx.ret
        fx.ret = '$ret'
        text = 'macro_rules! mk_%s { ($ret:ty) => { %s\n%s %s } }\nmk_%s!(%s);\n' % (
            fx.name, attr, sig(fx), body_for(ret, fx.macro == 'async', fx.awaits), fx.name, ret)
        fx.ret = ret
        return text
    return '%s\n%s %s\n' % (attr, sig(fx), body_for(fx.ret, fx.macro == 'async', fx.awaits))


PRELUDE_COMMON = '''#![allow(warnings)]
use cachelito_core::{DefaultCacheableKey, MemoryEstimator};

#[derive(Debug, Clone)]
pub struct Uk { pub a: i32, pub b: String }
impl DefaultCacheableKey for Uk {}

#[derive(Debug, Clone, Copy)]
pub struct Svc { pub id: u32 }
impl DefaultCacheableKey for Svc {}

pub mod errs { #[derive(Debug, Clone)] pub struct Failure; impl cachelito_core::MemoryEstimator for Failure {} }
pub type MyResult = Result<i32, String>;
pub type Res<T> = Result<T, String>;

pub fn keep_a<T>(_k: &String, _v: &T) -> bool { std::hint::black_box(true) }
pub fn stale_a<T>(_k: &String, _v: &T) -> bool { std::hint::black_box(false) }
pub mod preds {
    pub fn keep_b<T>(_k: &String, _v: &T) -> bool { std::hint::black_box(true) }
    pub fn stale_b<T>(_k: &String, _v: &T) -> bool { std::hint::black_box(false) }
}
// decoys: same last segment as the predicates of `mod preds`, opposite verdicts; a macro that shortens a predicate
// path to its last identifier still compiles and resolves to these (seed C10_r8a)
pub fn keep_b<T>(_k: &String, _v: &T) -> bool { std::hint::black_box(false) }
pub fn stale_b<T>(_k: &String, _v: &T) -> bool { std::hint::black_box(true) }
'''


def memory_ok(ret):
    # return types for which MemoryEstimator is implemented in cachelito-core
    return ret in ('i32', 'String', 'Vec<u8>', 'Option<i32>', '', '(i32, String)') or ret in [s for s, _ in RESULT_SPELLINGS]


def families(macro):
    out = []
    A = lambda *kv: list(kv)
    # K: key shapes
    shapes = [
        (None, []), (None, ['i32']), (None, ['i32', 'String']), (None, ['&str', 'u64', 'bool']),
        (None, ['char', 'f64', '(i32, String)', 'Option<u8>']), (None, ['Vec<i32>', 'Uk']),
        ('&self', []), ('&self', ['i32']), ('&self', ['String', '&str']), ('self', ['u8']), ('self', []),
        (None, ['&[u8]', 'i64']), (None, ['usize', '(u8,)', 'Option<String>']),
    ]
    for recv, ps in shapes:
        out.append(Fx(macro, [], ps, recv, 'i32', 'K'))
    # destructuring parameters: the pattern as a whole is one key part
    out.append(Fx(macro, [], ['@(a, b): (i32, i32)', 'i32'], None, 'i32', 'K'))
    out.append(Fx(macro, [], ['u8', '@(s, (n, m)): (String, (u8, u8))'], '&self', 'i32', 'K'))
    # parameters whose name starts with an underscore are parameters like any other (the body may well read them)
    out.append(Fx(macro, [], ['i32', '@_scale: i32'], None, 'i32', 'K'))
    out.append(Fx(macro, A(('limit', '3')), ['@_a: String', '@__b: u8'], '&self', 'i32', 'K'))
    # L/T/M/F: values x policies
    for i, lim in enumerate(['1', '3', '1000']):
        for pol in POLICIES:
            out.append(Fx(macro, A(('limit', lim), ('policy', '"%s"' % pol)), ['i32'], None, 'i32', 'L'))
    # literal spellings: separators, a base prefix, a type suffix
    out.append(Fx(macro, A(('limit', '1_000'), ('policy', '"lru"')), ['i32'], None, 'i32', 'L'))
    out.append(Fx(macro, A(('limit', '0x10')), ['i32'], None, 'i32', 'L'))
    out.append(Fx(macro, A(('limit', '7usize'), ('ttl', '60u64')), ['i32'], None, 'i32', 'L'))
    for ttl in ['1', '60', '0']:
        for pol in (POLICIES if ttl != '0' else POLICIES[:2]):
            out.append(Fx(macro, A(('ttl', ttl), ('policy', '"%s"' % pol)), ['i32'], None, 'String', 'T'))
    for j, (msrc, _) in enumerate(MEM_VALUES):
        pol = POLICIES[j % 6]
        out.append(Fx(macro, A(('max_memory', msrc), ('policy', '"%s"' % pol)), ['i32'], None, 'String', 'M'))
        out.append(Fx(macro, A(('policy', '"%s"' % POLICIES[(j + 3) % 6]), ('max_memory', msrc), ('limit', '3')), ['i32'], None, 'Vec<u8>', 'M'))
    for j, (fsrc, _) in enumerate(FW_VALUES):
        out.append(Fx(macro, A(('policy', '"tlru"'), ('frequency_weight', fsrc), ('limit', '3'), ('ttl', '60')), ['i32'], None, 'i32', 'F'))
        out.append(Fx(macro, A(('frequency_weight', fsrc), ('policy', '"%s"' % POLICIES[j])), ['u64'], None, 'i32', 'F'))
    # S: scope
    if macro == 'sync':
        for sc in [None, '"global"', '"thread"']:
            for pol in POLICIES:
                at = A(('policy', '"%s"' % pol), ('limit', '3'))
                if sc:
                    at.insert(0, ('scope', sc))
                out.append(Fx(macro, at, ['i32'], None, 'i32', 'S'))
        out.append(Fx(macro, A(('scope', '"thread"')), ['i32'], '&self', 'i32', 'S'))
        # an exclusive receiver is a receiver like any other: the scope attribute (or its default) still decides
        out.append(Fx(macro, A(('scope', '"global"'), ('limit', '3')), ['i32'], '&mut self', 'i32', 'S'))
        out.append(Fx(macro, [], ['i32'], '&mut self', 'i32', 'S'))
        out.append(Fx(macro, A(('scope', '"thread"')), [], '&mut self', 'i32', 'S'))
        out.append(Fx(macro, A(('scope', '"thread"'), ('max_memory', '"2KB"')), ['i32'], None, 'String', 'S'))
        out.append(Fx(macro, A(('scope', '"thread"'), ('ttl', '1')), ['i32'], None, 'Result<i32, String>', 'S'))
        # thread scope combined with every other attribute kind (nothing may silently turn it global)
        out.append(Fx(macro, A(('scope', '"thread"'), ('tags', '["tag:ts"]')), ['i32'], None, 'i32', 'S'))
        out.append(Fx(macro, A(('events', '["evt:ts"]'), ('scope', '"thread"'), ('dependencies', '["dep:ts"]')), ['i32'], None, 'i32', 'S'))
        out.append(Fx(macro, A(('scope', '"thread"'), ('name', '"custom_ts"'), ('limit', '3'), ('policy', '"lfu"')), ['i32'], None, 'i32', 'S'))
        out.append(Fx(macro, A(('scope', '"thread"'), ('cache_if', 'keep_a'), ('invalidate_on', 'stale_a'), ('frequency_weight', '1.5'), ('policy', '"tlru"')), ['i32'], None, 'i32', 'S'))
        out.append(Fx(macro, A(('scope', '"global"'), ('tags', '["tag:gs"]'), ('name', '"custom_gs"')), ['i32'], None, 'i32', 'S'))
    # N: names
    out.append(Fx(macro, A(('name', '"custom_n1"')), ['i32'], None, 'i32', 'N'))
    out.append(Fx(macro, A(('name', '"custom_n2"'), ('tags', '["tag:n2"]')), ['i32'], None, 'i32', 'N'))
    out.append(Fx(macro, A(('limit', '3'), ('name', '"custom_n3"'), ('events', '["evt:n3"]'), ('policy', '"lru"')), ['i32'], '&self', 'i32', 'N'))
    # G: groups
    out.append(Fx(macro, A(('tags', '["tag:a", "tag:b"]')), ['i32'], None, 'i32', 'G'))
    out.append(Fx(macro, A(('events', '["evt:a", "evt:b"]')), ['i32'], None, 'i32', 'G'))
    out.append(Fx(macro, A(('dependencies', '["dep:a", "dep:b"]')), ['i32'], None, 'i32', 'G'))
    out.append(Fx(macro, A(('tags', '["tag:c", "tag:d"]'), ('events', '["evt:c", "evt:d"]'), ('dependencies', '["dep:c", "dep:d"]')), ['i32', 'String'], None, 'String', 'G'))
    out.append(Fx(macro, A(('dependencies', '["dep:e"]'), ('tags', '["tag:e"]'), ('limit', '3'), ('policy', '"lfu"')), ['i32'], '&self', 'i32', 'G'))
    out.append(Fx(macro, A(('tags', '[]')), ['i32'], None, 'i32', 'G'))
    # names are registered exactly as written: upper case, and escapes in the literal decoded
    out.append(Fx(macro, A(('tags', '["UserData", "MiXed:Case"]'), ('events', '["EVT:Upper"]')), ['i32'], None, 'i32', 'G'))
    out.append(Fx(macro, A(('dependencies', '["Dep:Upper"]'), ('tags', '["tenant\\\\users", "say\\"hi"]')), ['i32'], None, 'i32', 'G'))
    # R: result spellings
    for sp, _ in RESULT_SPELLINGS:
        out.append(Fx(macro, [], ['i32'], None, sp, 'R'))
        out.append(Fx(macro, A(('max_memory', '"2KB"')), ['i32'], None, sp, 'R'))
        if macro == 'sync':
            out.append(Fx(macro, A(('scope', '"thread"')), ['i32'], None, sp, 'R'))
            out.append(Fx(macro, A(('scope', '"thread"'), ('max_memory', '"2KB"'), ('limit', '3')), ['i32'], None, sp, 'R'))
    # R (cont.): the function comes out of a macro_rules! expansion, return type passed as a `ty` fragment
    for at in ([[], A(('max_memory', '"2KB"'))] + ([A(('scope', '"thread"')), A(('scope', '"thread"'), ('max_memory', '"2KB"'))] if macro == 'sync' else [])):
        for sp in ('Result<i32, String>', 'i32'):
            f = Fx(macro, at, ['i32'], None, sp, 'R')
            f.via_macro = True
            out.append(f)
    # P: cache_if
    for pred in ['keep_a', 'preds::keep_b']:
        for ret in ['i32', 'Result<i32, String>']:
            for mem in [None, '"2KB"']:
                for lim in [None, '3']:
                    at = A(('cache_if', pred))
                    if mem:
                        at.append(('max_memory', mem))
                    if lim:
                        at.insert(0, ('limit', lim))
                    out.append(Fx(macro, at, ['i32'], None, ret, 'P'))
                    if macro == 'sync':
                        out.append(Fx(macro, [('scope', '"thread"')] + at, ['i32'], None, ret, 'P'))
    # I: invalidate_on
    for chk in ['stale_a', 'preds::stale_b']:
        for ret in ['i32', 'Result<i32, String>']:
            for extra in [None, ('cache_if', 'keep_a')]:
                at = A(('invalidate_on', chk))
                if extra:
                    at.append(extra)
                out.append(Fx(macro, at, ['i32'], None, ret, 'I'))
                if macro == 'sync':
                    out.append(Fx(macro, at + [('scope', '"thread"')], ['i32'], None, ret, 'I'))
    # A: async shapes
    if macro == 'async':
        for aw in (1, 2, 3):
            out.append(Fx(macro, A(('limit', '3'), ('policy', '"lru"')), ['i32'], None, 'i32', 'A', awaits=aw))
            out.append(Fx(macro, A(('max_memory', '"2KB"'), ('policy', '"lru"')), ['i32'], '&self', 'String', 'A', awaits=aw))
        out.append(Fx(macro, A(('max_memory', '"2KB"'), ('policy', '"arc"')), ['i32'], None, 'String', 'A', awaits=2))
        out.append(Fx(macro, A(('max_memory', '"2KB"'), ('policy', '"tlru"'), ('ttl', '60')), ['i32'], None, 'String', 'A', awaits=2))
    return out


def slots(macro):
    s = {
        'limit': [None, '1', '3', '1000'],
        'policy': [None] + ['"%s"' % p for p in POLICIES],
        'ttl': [None, '1', '60', '0'],
        'max_memory': [None] + [m for m, _ in MEM_VALUES],
        'frequency_weight': [None] + [f for f, _ in FW_VALUES],
        'name': [None, '"custom_%d"'],
        'tags': [None, '["tag:p%d"]', '["tag:q%d", "tag:r%d"]'],
        'events': [None, '["evt:p%d"]'],
        'dependencies': [None, '["dep:p%d", "dep:q%d"]'],
        'invalidate_on': [None, 'stale_a', 'preds::stale_b'],
        'cache_if': [None, 'keep_a', 'preds::keep_b'],
        'shape': ['f0', 'f1', 'f2', 'f3', 'f4', 'm0', 'm1', 'mv1'],
        'ret': ['i32', 'String', 'Result<i32, String>', 'std::result::Result<i32, String>', '', 'Option<i32>'],
    }
    if macro == 'sync':
        s['scope'] = [None, '"global"', '"thread"']
    return s


SHAPES = {
    'f0': (None, []), 'f1': (None, ['i32']), 'f2': (None, ['String', 'u64']), 'f3': (None, ['&str', 'bool', 'char']),
    'f4': (None, ['i32', 'Option<u8>', 'Vec<i32>', 'Uk']), 'm0': ('&self', []), 'm1': ('&self', ['i32']),
    'mv1': ('self', ['i32']),
}

ATTR_ORDER = ['scope', 'limit', 'policy', 'ttl', 'max_memory', 'frequency_weight', 'name', 'tags', 'events',
              'dependencies', 'invalidate_on', 'cache_if']


def pairwise(macro, rng, budget, seq0):
    sl = slots(macro)
    keys = sorted(sl)
    pairs = set()
    for a, b in itertools.combinations(keys, 2):
        for va in sl[a]:
            for vb in sl[b]:
                pairs.add((a, va, b, vb))
    out = []
    seq = seq0
    while pairs and len(out) < budget:
        best, bestc = None, -1
        for _ in range(40):
            cfg = {k: rng.choice(sl[k]) for k in keys}
            c = 0
            for a, b in itertools.combinations(keys, 2):
                if (a, cfg[a], b, cfg[b]) in pairs:
                    c += 1
            if c > bestc:
                best, bestc = cfg, c
        if bestc <= 0:
            break
        for a, b in itertools.combinations(keys, 2):
            pairs.discard((a, best[a], b, best[b]))
        seq += 1
        attrs = []
        order = list(ATTR_ORDER)
        rng.shuffle(order)
        for k in order:
            if k in best and best[k] is not None:
                v = best[k]
                if '%d' in v:
                    v = v.replace('%d', str(seq))
                attrs.append((k, v))
        recv, ps = SHAPES[best['shape']]
        out.append(Fx(macro, attrs, list(ps), recv, best['ret'], 'X', awaits=1 + seq % 3))
    return out, len(pairs)


def generate(outdir, tier='quick', repo='/repo'):
    rng = random.Random(20261004)
    os.makedirs(outdir, exist_ok=True)
    expect = {}
    info = {}
    for macro, crate in (('sync', 'fx_sync'), ('async', 'fx_async')):
        fxs = families(macro)
        budget = 80 if tier == 'quick' else 400
        extra, left = pairwise(macro, rng, budget, 1000)
        fxs += extra
        info[crate] = {'functions': len(fxs), 'pairs_left_uncovered': left}
        free, methods = [], []
        for i, fx in enumerate(fxs):
            if fx.receiver:
                fx.name = 'm%d' % i
                methods.append(fx)
            else:
                fx.name = 'f%d' % i
                free.append(fx)
            if fx.attr('name'):
                pass
        src = [PRELUDE_COMMON]
        src.append('use cachelito::cache;\n' if macro == 'sync' else 'use cachelito_async::cache_async;\n')
        for fx in free:
            src.append(render(fx))
        src.append('impl Svc {\n')
        for fx in methods:
            src.append(render(fx))
        src.append('}\n')
        d = os.path.join(outdir, crate)
        os.makedirs(os.path.join(d, 'src'), exist_ok=True)
        with open(os.path.join(d, 'src', 'lib.rs'), 'w') as f:
            f.write('\n'.join(src))
        if macro == 'sync':
            deps = 'cachelito = { path = "%s" }\ncachelito-core = { path = "%s/cachelito-core" }\nonce_cell = "1"\nparking_lot = "0.12"\n' % (repo, repo)
        else:
            deps = 'cachelito-async = { path = "%s/cachelito-async" }\ncachelito-core = { path = "%s/cachelito-core" }\nonce_cell = "1"\nparking_lot = "0.12"\ndashmap = "6.1"\n' % (repo, repo)
        with open(os.path.join(d, 'Cargo.toml'), 'w') as f:
            f.write('[package]\nname = "%s"\nversion = "0.0.0"\nedition = "2021"\n\n[features]\ndefault = ["stats"]\nstats = []\n\n[dependencies]\n%s' % (crate, deps))
        for fx in fxs:
            path = '%s::%s' % (crate, fx.name) if not fx.receiver else '%s::Svc::%s' % (crate, fx.name)
            e = expectations(fx)
            e['family'] = fx.family
            e['macro'] = macro
            e['attrs'] = [[n, v] for n, v in fx.attrs]
            e['awaits'] = fx.awaits
            expect[path] = e
    with open(os.path.join(outdir, 'expect.json'), 'w') as f:
        json.dump({'functions': expect, 'info': info}, f, indent=1, sort_keys=True)
    return info


if __name__ == '__main__':
    import sys
    print(generate(sys.argv[1], sys.argv[2] if len(sys.argv) > 2 else 'quick'))
