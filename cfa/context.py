"""Shared analysis context for one check invocation."""
import json
import os
from .extract import extract
from .facts import load_crate
from .program import Program
from . import names as N


class Ctx:
    def __init__(self, tier):
        self.tier = tier
        self.base, self.meta = extract(tier)
        u = self.meta['units']
        self._crates = {}
        self._prog = None
        self._world = None
        self._st_world = None
        with open(os.path.join(self.base, 'expect.json')) as f:
            self.expect = json.load(f)['functions']
        self.witness = None
        wp = os.path.join(self.base, 'witness.json')
        if os.path.exists(wp):
            with open(wp) as f:
                self.witness = json.load(f)

    def crate(self, unit):
        if unit not in self._crates:
            files = self.meta['units'][unit]
            # a unit compiled in several configurations: take the first (lib)
            self._crates[unit] = load_crate(os.path.join(self.base, sorted(files)[0]))
        return self._crates[unit]

    @property
    def core(self):
        return self.crate('cachelito_core')

    @property
    def fx_sync(self):
        return self.crate('fx_sync')

    @property
    def fx_async(self):
        return self.crate('fx_async')

    @property
    def selftest(self):
        return self.crate('selftest')

    @property
    def prog(self):
        if self._prog is None:
            self._prog = Program([self.core, self.fx_sync, self.fx_async])
        return self._prog

    @property
    def world(self):
        from .locks import LockWorld
        if self._world is None:
            self._world = LockWorld(self.prog)
        return self._world

    @property
    def st_world(self):
        from .locks import LockWorld
        if self._st_world is None:
            self._st_world = LockWorld(Program([self.selftest]))
        return self._st_world

    def nostats(self):
        """thorough tier: a context whose core is cachelito-core built with --no-default-features (no fixtures)"""
        import glob
        from .facts import load_crate
        fs = sorted(glob.glob(os.path.join(self.base, 'u1n', 'cachelito_core-*.json')))
        if not fs:
            return None
        c2 = Ctx.__new__(Ctx)
        c2.tier = self.tier
        c2.base, c2.meta = self.base, self.meta
        c2._crates = {'cachelito_core': load_crate(fs[0])}
        c2._prog = Program([c2._crates['cachelito_core']])
        c2._world = None
        c2._st_world = None
        c2.expect = {}
        c2.witness = None
        return c2

    # ---- thorough tier: the repository's own decorated functions (tests, examples) ----------------
    def u5_crates(self):
        import glob
        from .facts import load_crate
        if not hasattr(self, '_u5'):
            out = []
            d = os.path.join(self.base, 'u5')
            for f in sorted(glob.glob(os.path.join(d, '*.json'))):
                bn = os.path.basename(f)
                if bn.startswith('cachelito_core-'):
                    continue  # the core is taken from the main unit (same ids)
                out.append(load_crate(f))
            self._u5 = out
        return self._u5

    def u5_generated(self):
        """ids of generated bodies in U5: a body that builds a cache on statics it owns, and everything nested in it"""
        if hasattr(self, '_u5gen'):
            return self._u5gen
        from .facts import callee_name
        gen = set()
        roots = []
        for c in self.u5_crates():
            for b in c.bodies.values():
                for blk, t in b.calls():
                    cn = callee_name(t)
                    if cn in (N.GLOBAL + '::new', N.THREAD + '::new', N.ASYNC + '::new'):
                        if not t.get('exp'):
                            break  # a cache built by hand-written code (examples, tests), not by the macro
                        # statics passed must belong to this body
                        owns = False
                        for sid, st in c.statics.items():
                            if st.get('parent_fn') == b.id:
                                owns = True
                                break
                        if owns:
                            roots.append((c, b))
                        break
        for c, b in roots:
            gen.add(b.id)
            for d in c.descendants(b):
                gen.add(d.id)
            # an async fn's coroutine is the root; include the enclosing fn too
            if b.kind == 'coroutine' and b.parent:
                gen.add(b.parent)
        self._u5gen = gen
        self._u5roots = roots
        return gen

    @property
    def u5_prog(self):
        if not hasattr(self, '_u5prog'):
            self._u5prog = Program([self.core] + self.u5_crates())
        return self._u5prog

    @property
    def u5_world(self):
        from .locks import LockWorld
        if not hasattr(self, '_u5world'):
            gen = self.u5_generated()
            core = self.core
            self._u5world = LockWorld(self.u5_prog, include=lambda b: b.crate is core or b.id in gen)
        return self._u5world

    def role(self, body):
        """None for hand-written code; for generated code (fixture crates) a stable role name:
        '<macro>:wrapper' | ':clear-callback' | ':check-callback' | ':body' | ':registration' | ':closure'"""
        if body.crate.name not in ('fx_sync', 'fx_async'):
            if body.crate is not self.core and hasattr(self, '_u5gen') and body.id in self._u5gen:
                return 'repo-own:generated'
            return None
        mac = 'cache' if body.crate.name == 'fx_sync' else 'cache_async'
        prog = self.prog
        if not hasattr(self, '_roles'):
            self._roles = {}
            for kind in ('clear', 'check'):
                for (cb, _, _) in prog.registered[kind]:
                    self._roles[cb.id] = kind + '-callback'
        if body.id in self._roles:
            return '%s:%s' % (mac, self._roles[body.id])
        if body.name in self.expect:
            return '%s:wrapper' % mac
        par = prog.bodies.get(body.parent)
        if body.kind == 'coroutine' and par is not None and par.name in self.expect:
            return '%s:wrapper' % mac
        # closures nested in a callback belong to it
        cur = par
        while cur is not None:
            if cur.id in self._roles:
                return '%s:%s/closure' % (mac, self._roles[cur.id])
            cur = prog.bodies.get(cur.parent)
        return '%s:closure' % mac

    def label(self, body):
        """name used in violation keys: generated code is keyed by role, not by fixture name"""
        r = self.role(body)
        return ('generated:' + r) if r else body.name

    def core_fn(self, name):
        """the unique core body with this generic-free path, or None"""
        bs = self.core.named(name)
        return bs[0] if len(bs) == 1 else None

    def describe_units(self):
        out = {}
        for u in self.meta['units']:
            if u in self._crates:
                out[u] = {'bodies': len(self._crates[u].bodies), 'cfg': self._crates[u].cfg}
        return out
