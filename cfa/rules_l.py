"""Engine L rules: C16-R1 (RefCell re-borrow), C17 (lock order, DashMap discipline, user code under
locks, registration), C18-M1 (atomic removals), C20-L1 (no guard across a yield)."""
from collections import defaultdict
from .facts import callee_name
from .locks import Held, LockWorld, BLOCKING_FAMILIES
from .effects import Effects, S_REMOVALS, Q_REMOVALS
from .origin import Resolver, flatten
from .types import parse, strip_refs
from . import names as N

CACHE_LOCKS = ('STORE_RW', 'ORDER', 'STORE_DM')


def _fam_of_class(c):
    if c in ('TL_STORE', 'TL_ORDER') or c.startswith('CELL:'):
        return 'cell'
    if c.startswith('INIT:'):
        return 'init'
    return 'blocking'


def _holders(world, body_id, cls, limit=12):
    """call sites up the call graph at which `cls` is held locally (witnesses for a context-held class)"""
    prog = world.prog
    rev = defaultdict(list)
    for b in world.bodies:
        for (blk, cb, how) in prog.call_edges(b):
            if how != 'stored':
                rev[cb.id].append((b, blk))
    out = []
    seen = {body_id}
    todo = [(body_id, ())]
    while todo and len(out) < limit:
        cur, chain = todo.pop(0)
        for (caller, blk) in rev.get(cur, ()):
            h = world.held[caller.id]
            step = '%s (%s)' % (caller.name, caller.loc(blk))
            if any(c == cls for (_, c, _) in h.held_at(blk)):
                out.append((caller, blk, (step,) + chain))
            if caller.id not in seen:
                seen.add(caller.id)
                todo.append((caller.id, (step,) + chain))
    return out


# ------------------------------------------------------------------------------------------------
def lock_graph(world):
    """edges[(c, d)] = [witness dict]; classes are exact (INIT nodes per static)"""
    edges = defaultdict(list)
    for a, held in world.events():
        for c, (m, w) in held.items():
            edges[(c, a.cls)].append({'acquire': '%s (%s)' % (a.body.name, a.span), 'callee': a.cn,
                                      'held_via': [('%s bb%d %s' % x) for x in w], 'held_mode': m, 'acq_mode': a.mode,
                                      'body': a.body, 'block': a.block})
    return edges


def _sccs(nodes, succ):
    index = {}
    low = {}
    stack = []
    on = set()
    out = []
    counter = [0]

    def strong(v):
        # iterative Tarjan
        work = [(v, iter(succ.get(v, ())))]
        index[v] = low[v] = counter[0]
        counter[0] += 1
        stack.append(v)
        on.add(v)
        while work:
            node, it = work[-1]
            adv = False
            for w in it:
                if w not in index:
                    index[w] = low[w] = counter[0]
                    counter[0] += 1
                    stack.append(w)
                    on.add(w)
                    work.append((w, iter(succ.get(w, ()))))
                    adv = True
                    break
                elif w in on:
                    low[node] = min(low[node], index[w])
            if adv:
                continue
            work.pop()
            if work:
                low[work[-1][0]] = min(low[work[-1][0]], low[node])
            if low[node] == index[node]:
                comp = []
                while True:
                    w = stack.pop()
                    on.discard(w)
                    comp.append(w)
                    if w == node:
                        break
                out.append(comp)

    for v in nodes:
        if v not in index:
            strong(v)
    return out


def check_lock_order(run, world, label=''):
    edges = lock_graph(world)
    blocking = {}
    for (c, d), ws in edges.items():
        if _fam_of_class(c) == 'cell' or _fam_of_class(d) == 'cell':
            continue
        blocking[(c, d)] = ws
    nodes = sorted({c for e in blocking for c in e})
    succ = defaultdict(set)
    for (c, d) in blocking:
        if c != d:
            succ[c].add(d)
    nviol = 0
    # self edges
    for (c, d), ws in sorted(blocking.items()):
        if c == d:
            nviol += 1
            w = ws[0]
            run.bad('C17-L1', '%sself/%s' % (label, c),
                    'lock class %s is acquired again (%s) while a guard of the same class may be held: self-deadlock for a mutex or '
                    'write lock, and for a read lock as soon as a writer queues' % (c, w['acquire']),
                    site=w['acquire'], path=w['held_via'], oracle='no self edge on a blocking class')
    for comp in _sccs(nodes, succ):
        if len(comp) > 1:
            comp = sorted(comp)
            nviol += 1
            path = []
            for (c, d), ws in sorted(blocking.items()):
                if c in comp and d in comp and c != d:
                    sites = sorted({w['acquire'] for w in ws})
                    path.append('%s -> %s: %d site(s), e.g. %s; %s held via %s' % (c, d, len(ws), sites[0], c, ws[0]['held_via'][:3]))
                    for s in sites[1:4]:
                        path.append('      also %s' % s)
            run.bad('C17-L1', '%scycle/%s' % (label, '+'.join(comp)),
                    'lock classes %s are acquired in opposite orders: two threads can each hold one and wait for the other' % ' and '.join(comp),
                    site=path[0] if path else None, path=path, oracle='lock-order graph acyclic')
    for (c, d) in sorted(blocking):
        if c != d and not any(c in comp and d in comp for comp in _sccs(nodes, succ) if len(comp) > 1):
            run.ok('C17-L1', '%sedge/%s->%s' % (label, c.split(':')[0] if c.startswith('INIT') else c, d.split(':')[0] if d.startswith('INIT') else d),
                   '%d acquisition site(s), e.g. %s' % (len(blocking[(c, d)]), blocking[(c, d)][0]['acquire']))
    return edges, nviol


def check_dashmap_discipline(run, world, label='', namer=None):
    """L2: nothing blocking is acquired while a DashMap reference/iterator local may be alive"""
    n = 0
    bad = 0
    for a, held in world.events():
        if a.fam not in BLOCKING_FAMILIES:
            continue
        n += 1
        for c, (m, w) in held.items():
            if c == 'STORE_DM' or c.startswith('DM:'):
                bad += 1
                run.bad('C17-L2', '%s%s/%s-under-dashmap-ref' % (label, namer(a.body) if namer else a.body.name, a.cls),
                        '%s is acquired at %s while a DashMap entry reference / iterator may still be alive (shard lock held)' % (a.cls, a.span),
                        site='%s (%s)' % (a.body.name, a.span), path=[('%s bb%d %s' % x) for x in w],
                        oracle='drop the DashMap reference before any other lock or DashMap operation')
    return n, bad


USER_EXCEPTIONS = {
    # (kind, callee, generic self type) -> reason
    ('trait', N.CLONE, 'R'): 'cloning the cached value out of the store happens under the store read lock / shard lock by design',
    ('trait', 'cachelito_core::memory_estimator::MemoryEstimator::estimate_memory', 'R'): 'sizes are summed while the store is locked; estimators must not re-enter the cache',
    ('trait', N.CLONE, 'K'): 'utils selectors are generic over the key type; every caller passes String',
    ('trait', N.CLONE, 'T'): 'insert_result* clones the Ok payload before taking any lock (reported only if a lock is held)',
    ('trait', 'core::iter::traits::iterator::Iterator::collect', 'I'): 'utils selectors collect the caller\'s own `order.iter().enumerate()`; the iterator is library code at every call site',
    ('dyn', 'user-key-predicate', ''): 'the key predicate of invalidate_with / invalidate_all_with runs inside the conditional callback; by contract it must not call the cache it filters',
}


def _generic_param(self_ty):
    t = strip_refs(parse(self_ty or ''))
    if t.kind == 'adt' and not t.args and '::' not in t.name and len(t.name) <= 2 and t.name[:1].isupper():
        return t.name
    return None


def user_calls(world):
    """(body, block, kind, callee, param, held-classes) for calls that run user-supplied code"""
    prog = world.prog
    for body in world.bodies:
        h = world.held[body.id]
        cctx = world.ctx[body.id]
        for b, t in body.calls():
            cn = callee_name(t)
            c = t['callee']
            kind = None
            gp = None
            dk = prog.dyn_call_kind(body, t)
            if dk == 'user':
                kind, cn2, gp = 'dyn', 'user-key-predicate', ''
            elif c.get('trait') and not c.get('resolved') and _generic_param(c.get('self_ty')):
                gp = _generic_param(c.get('self_ty'))
                kind, cn2 = 'trait', cn
            else:
                continue
            held = {cl for (_, cl, _) in h.held_at(b)} | set(cctx)
            held = {x for x in held if not x.startswith('INIT:')}
            yield body, b, kind, cn2, gp, held


def check_user_code(run, ctx, world):
    """L3: user code is only called with no cache lock held, except the reviewed table"""
    n = 0
    seen_exc = defaultdict(int)
    for body, b, kind, cn, gp, held in user_calls(world):
        if not held:
            continue
        n += 1
        key = (kind, cn, gp)
        if key in USER_EXCEPTIONS:
            seen_exc[key] += 1
            continue
        run.bad('C17-L3', '%s/%s<%s>' % (body.name, cn, gp),
                'user-supplied code (%s on %s) is called at %s while %s may be held' % (cn, gp or 'dyn', body.loc(b), sorted(held)),
                site='%s (%s)' % (body.name, body.loc(b)), oracle='user code runs with no cache lock held (reviewed exceptions: %d)' % len(USER_EXCEPTIONS))
    for key, cnt in sorted(seen_exc.items()):
        run.ok('C17-L3', 'exception/%s/%s<%s>' % key, '%d site(s) under a lock; reason: %s' % (cnt, USER_EXCEPTIONS[key]))
    return n


def wrapper_user_sites(ctx):
    """(fixture body, block, what) for the body invocation and the predicate calls in generated wrappers"""
    out = []
    prog = ctx.prog
    for path, e in ctx.expect.items():
        bodies = prog.by_name.get(path, [])
        for fb in bodies:
            scope = [fb] + fb.crate.descendants(fb)
            for body in scope:
                for b, t in body.calls():
                    cn = callee_name(t)
                    if cn in ('core::ops::function::FnOnce::call_once', 'core::ops::function::Fn::call', 'core::ops::function::FnMut::call_mut'):
                        cl = t['callee'].get('closures') or []
                        if cl:
                            out.append((fb, body, b, 'body-closure'))
                    elif cn in ('core::future::into_future::IntoFuture::into_future',):
                        out.append((fb, body, b, 'body-future'))
                    else:
                        base = cn.split('::<')[0]
                        for attr in ('cache_if', 'invalidate_on'):
                            if e.get(attr) and base == '%s::%s' % (fb.crate.name, e[attr]):
                                out.append((fb, body, b, attr))
    return out


def check_wrapper_user_code(run, ctx, world):
    n = 0
    for fb, body, b, what in wrapper_user_sites(ctx):
        h = world.held[body.id]
        held = {cl for (_, cl, _) in h.held_at(b)} | set(world.ctx[body.id])
        held = {x for x in held if not x.startswith('INIT:')}
        n += 1
        if held:
            run.bad('C17-L3', '%s/%s-under-lock' % (fb.name, what), '%s of %s is invoked at %s while %s may be held' % (what, fb.name, body.loc(b), sorted(held)),
                    site='%s (%s)' % (body.name, body.loc(b)), oracle='wrapper calls the user body and predicates with no lock held')
        else:
            run.ok('C17-L3', '%s/%s' % (fb.name, what), 'held set empty at %s' % body.loc(b))
    return n


def check_registration(run, ctx, world, edges):
    """L4: registration closures only touch registry classes; Lazy initialisers acquire nothing;
    no edge from a store/queue class to a registry class"""
    for (c, d), ws in sorted(edges.items()):
        if c in CACHE_LOCKS and (d.startswith('REG.') or d == 'STATS_REG'):
            run.bad('C17-L4', 'edge/%s->%s' % (c, d), 'registry lock %s is taken at %s while cache lock %s is held: a registration or invalidation in '
                    'progress can then block a cache operation' % (d, ws[0]['acquire'], c), site=ws[0]['acquire'], path=ws[0]['held_via'],
                    oracle='no edge from store/queue classes to registry classes')
    # Lazy initialisers: closures whose parent is a static body
    prog = ctx.prog
    n = 0
    for body in world.bodies:
        par = prog.bodies.get(body.parent) if body.kind == 'closure' else None
        if par is not None and par.kind == 'static':
            n += 1
            acq = [a for a in world.held[body.id].acq.values() if a.fam != 'init']
            if acq:
                run.bad('C17-L4', 'lazy-init/%s' % body.name, 'the initialiser of static %s acquires %s' % (par.name, acq[0].cls),
                        site='%s (%s)' % (body.name, acq[0].span), oracle='Lazy initialisers acquire nothing')
    run.ok('C17-L4', 'lazy-initialisers', '%d static initialiser closures acquire no lock' % n)
    return n


# ------------------------------------------------------------------------------------------------
def check_reborrow(run, world, label='', namer=None):
    """C16-R1: a RefCell class is borrowed while a conflicting borrow of the same class may be live"""
    n = 0
    bad = 0
    for a, held in world.events():
        if a.fam != 'cell':
            continue
        n += 1
        if a.cls in held:
            hm = held[a.cls][0]
            if a.mode == 'w' or hm == 'w':
                bad += 1
                holders = _holders(world, a.body.id, a.cls)
                h = world.held[a.body.id]
                local = any(c == a.cls for (_, c, _) in h.held_at(a.block))
                path = []
                if local:
                    path.append('held locally in %s at %s' % (a.body.name, a.span))
                for (caller, blk, chain) in holders:
                    path.append('held by %s at %s; call chain: %s' % (caller.name, caller.loc(blk), ' -> '.join(chain)))
                run.bad('C16-R1', '%sreborrow/%s/%s' % (label, a.body.name, a.cls),
                        '%s (%s) of RefCell class %s at %s while a %s borrow of the same cell may be live: panics "already borrowed" whenever the path runs'
                        % (a.cn.rsplit('::', 1)[-1], 'mutable' if a.mode == 'w' else 'shared', a.cls, a.span, 'mutable' if hm == 'w' else 'shared'),
                        site='%s (%s)' % (a.body.name, a.span), path=path, oracle='no conflicting re-borrow on any call path')
                continue
        run.ok('C16-R1', '%sborrow/%s/bb%d/%s' % (label, a.body.name, a.block, a.cls), 'no conflicting borrow may be live at %s' % a.span)
    return n, bad


# ------------------------------------------------------------------------------------------------
def check_yield(run, world, label='', only=None, namer=None):
    n = 0
    bad = 0
    for body, b, held in world.yields():
        if only is not None and not only(body):
            continue
        n += 1
        if held:
            bad += 1
            run.bad('C20-L1', '%syield/%s' % (label, namer(body) if namer else body.name), 'guard(s) %s may be alive at the await point %s: a suspended or dropped call would keep the lock'
                    % (sorted({c for (_, c, _) in held}), body.loc(b)), site='%s (%s)' % (body.name, body.loc(b)), oracle='held set empty at every Yield')
        else:
            run.ok('C20-L1', '%syield/%s/bb%d' % (label, body.name, b), 'no guard-carrying local is live at %s' % body.loc(b))
    return n, bad


# ------------------------------------------------------------------------------------------------
def check_atomic_removal(run, prog, bodies, label='', namer=None):
    """C18-M1: a store removal that is followed (on some path) by a queue removal must lie with it in one
    queue critical section: the same queue guard local must be held at both, or the queue is a `&mut`
    parameter of the function (exclusively borrowed by the caller for the whole call)."""
    eff = Effects(prog, stop_at_operations=True)
    n = 0
    bad = 0
    for body in bodies:
        sites = eff.sites(body)
        srem = [(b, k, ch) for (b, k, ch) in sites if k in S_REMOVALS]
        qrem = [(b, k, ch) for (b, k, ch) in sites if k in Q_REMOVALS]
        if not srem or not qrem:
            continue
        must = Held(body, may=False)
        res = Resolver(body, value_like=False)
        # is the queue reached through a parameter (exclusive borrow held by the caller)?
        prim_q = {b: t for (b, k, t) in eff.prim(body) if k in Q_REMOVALS}
        for (bs, ks, chs) in srem:
            for (bq, kq, chq) in qrem:
                if bq == bs:
                    continue  # both inside one callee: judged in the callee
                if bq not in body.reachable(bs):
                    continue
                n += 1
                gs = {l for (l, c, m) in must.held_at(bs) if c in ('ORDER', 'TL_ORDER')}
                gq = {l for (l, c, m) in must.held_at(bq) if c in ('ORDER', 'TL_ORDER')}
                key = '%s%s/%s-then-%s' % (label, namer(body) if namer else body.name, ks, kq)
                if gs & gq:
                    run.ok('C18-M1', key + '/bb%d-bb%d' % (bs, bq), 'queue guard local %s is held at both the store removal (%s) and the later queue removal (%s)'
                           % (sorted(gs & gq), body.loc(bs), body.loc(bq)))
                    continue
                param_rooted = False
                if bq in prim_q:
                    t = prim_q[bq]
                    for o in flatten(res.operand(t['args'][0])):
                        if o[0] == 'param' and body.kind in ('fn', 'assoc_fn') and o[1] >= 1:
                            pt = parse(body.local_ty(o[1]))
                            if pt.kind == 'ref' and pt.name == 'mut':
                                param_rooted = True
                else:
                    # queue effect performed by a callee that receives the queue: look at what is passed
                    t = body.term(bq)
                    for a in t.get('args', ()):
                        for o in flatten(res.operand(a)):
                            if o[0] == 'param' and body.kind in ('fn', 'assoc_fn'):
                                pt = parse(body.local_ty(o[1]))
                                if pt.kind == 'ref' and pt.name == 'mut' and ('VecDeque' in pt.text):
                                    param_rooted = True
                if param_rooted:
                    run.ok('C18-M1', key + '/bb%d-bb%d' % (bs, bq), 'the queue is an exclusive `&mut` parameter of %s: the caller holds it across both halves' % body.name)
                    continue
                bad += 1
                run.bad('C18-M1', key,
                        'store removal (%s, %s) is followed by the queue removal (%s, %s) without one queue critical section around both: a store of the same key '
                        'in between stays in the store but is dropped from the queue (untracked entry, limit stops holding)' % (ks, body.loc(bs), kq, body.loc(bq)),
                        site='%s (%s)' % (body.name, body.loc(bs)), path=['store removal via %s' % ' -> '.join(chs), 'queue removal via %s' % ' -> '.join(chq)],
                        oracle='S- before its Q- only inside one region where a queue guard must be held')
    return n, bad


def check_no_try_locks(run, world, rule, only=lambda b: True):
    """an effect that is skipped when a lock happens to be busy is lost under contention (hit not counted,
    key not re-queued, entry not purged): cache code must wait for its locks"""
    n = 0
    for body in world.bodies:
        if not only(body):
            continue
        for blk, a in world.held[body.id].acq.items():
            n += 1
            short = a.cn.rsplit('::', 1)[-1]
            if short.startswith('try_'):
                run.bad(rule, '%s/%s' % (body.name, short), '%s acquires %s with %s at %s: when the lock is busy the guarded update is silently skipped, so the bookkeeping (hit '
                        'counters, recency order, purges) is no longer exact under concurrency' % (body.name, a.cls, short, a.span), site='%s (%s)' % (body.name, a.span),
                        oracle='cache bookkeeping waits for its locks')
    run.ok(rule, 'no-try-acquisitions', '%d lock / borrow / DashMap acquisitions examined, none is a try_* variant' % n)
    return n


UNLOCKERS = ('unlocked', 'unlocked_fair', 'bump', 'force_unlock', 'force_unlock_fair', 'force_unlock_read', 'force_unlock_write', 'downgrade', 'downgrade_to_upgradable')


def check_no_lock_release_inside(run, world, rule, only=lambda b: True):
    """a critical section that temporarily gives its lock away (`guard.unlocked(..)`, `bump`, `force_unlock`) is two
    critical sections: what the section established before the gap can be undone by another thread inside it"""
    n = 0
    for body in world.bodies:
        if not only(body):
            continue
        for b, t in body.calls():
            cn = callee_name(t)
            if cn.startswith('lock_api::') and cn.rsplit('::', 1)[-1] in UNLOCKERS:
                n += 1
                run.bad(rule, '%s/%s' % (body.name, cn.rsplit('::', 1)[-1]), '%s releases a lock in the middle of a critical section (%s at %s): the removal and the insertion (or the store and '
                        'the queue update) around it are no longer atomic for other callers' % (body.name, cn.rsplit('::', 2)[-2] + '::' + cn.rsplit('::', 1)[-1], body.loc(b)),
                        site='%s (%s)' % (body.name, body.loc(b)), oracle='cache critical sections are not interrupted')
    run.ok(rule, 'no-interrupted-critical-sections', 'no guard.unlocked / bump / force_unlock in the analysed bodies')
    return n


def check_clear_is_complete(run, prog, bodies, rule='C18-M4', namer=None):
    """a function of the library that empties the store (or the queue) of a cache empties the other one too, on every
    path: a half-cleared cache holds entries that can never be evicted, or queue slots without entries"""
    eff = Effects(prog, stop_at_operations=True)
    n = 0
    for body in bodies:
        sites = eff.sites(body)
        s0 = [b for (b, k, ch) in sites if k == 'S0']
        q0 = [b for (b, k, ch) in sites if k == 'Q0']
        if not s0 and not q0:
            continue
        n += 1
        name = namer(body) if namer else body.name
        exits = set(body.exits())
        miss_s = not s0 or bool(exits & body.reachable(0, blocked=tuple(s0)))
        miss_q = not q0 or bool(exits & body.reachable(0, blocked=tuple(q0)))
        # a path that clears neither is fine (nothing to do); judge paths that clear one of them
        if s0 and q0:
            half = any(bool(exits & body.reachable(b, blocked=tuple(q0))) and not any(body.dominates(q, b) for q in q0) for b in s0) or \
                any(bool(exits & body.reachable(b, blocked=tuple(s0))) and not any(body.dominates(s_, b) for s_ in s0) for b in q0)
        else:
            half = True
        if half:
            run.bad(rule, '%s/half-clear' % name, '%s empties the %s of a cache but, on some path, not its %s' % (body.name, 'store' if s0 else 'queue', 'queue' if s0 else 'store'),
                    site=body.name, oracle='store and queue are emptied together')
        else:
            run.ok(rule, name, 'store and queue emptied together on every path')
    return n


def check_probe_under_queue_lock(run, ctx, rule='C18-M5'):
    """check-then-act on the store of the async cache: a test "is this key stored?" whose answer decides what a store
    operation does (replace the old entry and its queue slot, or not) is only valid while the order-queue lock is held -
    that lock is what serialises the stores.  A probe made before the lock is taken goes stale: two tasks that miss on the
    same key both see "absent", both push the key, and the queue holds it twice."""
    from .effects import classify
    n = 0
    # the store path: the two public store functions of the async cache and everything in the library they reach (helpers are
    # found through the call graph, not by name)
    scope = []
    seen = set()
    todo = [b for b in ctx.core.bodies.values() if b.name in (N.ASYNC + '::insert', N.ASYNC + '::insert_with_memory')]
    while todo:
        x = todo.pop()
        if x.id in seen:
            continue
        seen.add(x.id)
        scope.append(x)
        for (blk, cb, how) in ctx.prog.call_edges(x):
            if cb.crate is ctx.core and how in ('direct', 'closure') and cb.id not in seen:
                todo.append(cb)
    for body in scope:
        probes = [(bi, t) for bi, t in body.calls() if classify(t) == 'S?']
        if not probes:
            continue
        must = Held(body, may=False)
        res = Resolver(body, value_like=False)
        # does the function receive the locked queue from its caller?
        guard_param = False
        if body.kind in ('fn', 'assoc_fn'):
            for i in range(1, body.arg_count + 1):
                ty = body.local_ty(i)
                if 'MutexGuard' in ty or ('VecDeque' in ty and ty.startswith('&mut')):
                    guard_param = True
        for bi, t in probes:
            n += 1
            held = {l for (l, c, m) in must.held_at(bi) if c in ('ORDER', 'TL_ORDER')}
            key = '%s/bb%d' % (body.name, bi)
            if held or guard_param:
                run.ok(rule, key, 'presence test made under the queue lock' if held else 'the caller passes the locked queue')
            else:
                run.bad(rule, '%s/probe-before-the-queue-lock' % body.name, '%s asks whether the key is stored (%s) while the order-queue lock is not held; its answer is used after the lock '
                        'is taken, when another task may already have stored the key: the key is then queued twice and the Random policy can leave limit+1 entries'
                        % (body.name, body.loc(bi)), site='%s (%s)' % (body.name, body.loc(bi)), oracle='presence tests that steer a store are made under the queue lock')
    run.require(rule, 'presence tests in the async store path', n, 1)
    return n
