def check_panic_sites(run, ctx):
    pass
