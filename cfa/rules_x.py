"""Engine X: explicit panic sites on cache-operation paths (C16-R2)."""
from .facts import callee_name
from .expr import Expr, show, calls_in, strip_casts, walk, field_path
from . import names as N

PANICKY = ('core::option::Option::unwrap', 'core::option::Option::expect', 'core::result::Result::unwrap', 'core::result::Result::expect',
           'core::result::Result::unwrap_err', 'core::result::Result::expect_err', 'core::ops::index::Index::index', 'core::ops::index::IndexMut::index_mut',
           'core::slice::<impl [T]>::swap', 'alloc::collections::vec_deque::VecDeque::swap', 'alloc::vec::Vec::remove', 'alloc::vec::Vec::swap_remove',
           'alloc::vec::Vec::insert', 'alloc::collections::vec_deque::VecDeque::insert')
PANIC_FNS = ('core::panicking::', 'std::rt::begin_panic', 'core::option::expect_failed', 'core::result::unwrap_failed')
ASSERT_KINDS = ('BoundsCheck', 'DivisionByZero', 'RemainderByZero')


def _classify_site(ex, cn, t):
    """('environment', reason) | ('guarded', reason) | ('data', description)"""
    a0 = ex.operand(t['args'][0]) if t['args'] else None
    if ' on ' in cn:
        return 'data', 'time arithmetic that panics when the result would be negative / out of range: %s' % ', '.join(show(ex.operand(a)) for a in t['args'])
    if cn.startswith('core::result::Result::') and a0 is not None:
        inner = strip_casts(a0)
        if inner[0] == 'call' and inner[1] == 'std::time::SystemTime::duration_since':
            args = inner[2]
            if len(args) == 2 and args[0][0] == 'call' and args[0][1] == 'std::time::SystemTime::now' and args[1][0] == 'static' and args[1][1].endswith('UNIX_EPOCH'):
                return 'environment', 'SystemTime::now().duration_since(UNIX_EPOCH): fails only if the system clock is before 1970'
    return 'data', show(a0) if a0 is not None else cn


def check_panic_sites(run, ctx):
    crates = [ctx.core, ctx.fx_sync, ctx.fx_async]
    n = 0
    env = 0
    bodies = 0
    for crate in crates:
        for body in crate.bodies.values():
            role = ctx.role(body)
            if crate is not ctx.core:
                # generated code only; the user body closure / inner future is the user's
                if role is None or role.endswith(':closure'):
                    continue
            if body.name.startswith('<') and ' as core::' in body.name:
                continue  # derive-generated std trait impls (unreachable!() in derived PartialEq etc.)
            bodies += 1
            ex = None
            for bi, bl in enumerate(body.blocks):
                if bl['cleanup']:
                    continue
                t = bl['term']
                site = None
                if t['k'] == 'assert' and t['msg'] in ASSERT_KINDS:
                    site = ('assert:' + t['msg'], None)
                elif t['k'] == 'call':
                    cn = callee_name(t)
                    if cn in PANICKY or cn.startswith(PANIC_FNS):
                        site = (cn, t)
                    elif cn in ('core::ops::arith::Sub::sub', 'core::ops::arith::SubAssign::sub_assign', 'core::ops::arith::Div::div', 'core::ops::arith::Rem::rem',
                                'core::ops::arith::Mul::mul', 'core::ops::arith::Add::add', 'core::ops::arith::AddAssign::add_assign'):
                        r = t['callee'].get('resolved') or ''
                        st = t['callee'].get('self_ty') or ''
                        if st in ('core::time::Duration', 'std::time::Instant', 'std::time::SystemTime') and not (cn.endswith('Sub::sub') and st == 'std::time::Instant' and 'Instant>' in r):
                            site = ('%s on %s' % (cn.rsplit('::', 1)[-1], st.rsplit('::', 1)[-1]), t)
                    elif cn in ('core::time::Duration::from_secs_f64', 'core::time::Duration::from_secs_f32', 'core::time::Duration::mul_f64', 'core::time::Duration::div_f64',
                                'std::time::Instant::duration_since', 'core::option::Option::unwrap_unchecked', 'core::hint::unreachable_unchecked'):
                        if cn != 'std::time::Instant::duration_since':
                            site = (cn, t)
                if site is None:
                    continue
                n += 1
                ex = ex or Expr(body)
                label = ctx.label(body)
                if site[1] is None:
                    run.bad('C16-R2', '%s/%s' % (label, site[0]), 'a %s check that can fail at run time sits on a cache path in %s (%s)' % (t['msg'], body.name, t.get('span')),
                            site='%s (%s)' % (body.name, t.get('span')), oracle='no unguarded data-dependent panic site on cache-operation paths')
                    continue
                kind, why = _classify_site(ex, site[0], site[1])
                short = site[0].rsplit('::', 1)[-1]
                if kind == 'environment':
                    env += 1
                    run.ok('C16-R2', '%s/%s/environment/bb%d' % (label, short, bi), why)
                else:
                    run.bad('C16-R2', '%s/%s' % (label, short), '%s on a value derived from cache contents or arguments can panic in %s (%s): operand %s' % (short, body.name, t.get('span'), why),
                            site='%s (%s)' % (body.name, t.get('span')), oracle='unwrap/expect/index only on environment values (reviewed) or behind a dominating presence test')
    run.require('C16-R2', 'bodies scanned for panic sites', bodies, 400)
    run.require('C16-R2', 'reviewed environment sites', env, 4)
    return n


DEBUG_ONLY = ('debug_assert', 'debug_assert_eq', 'debug_assert_ne')
PURE_KINDS = ('Sget', 'S?', 'Slen', 'Qlen', 'Qiter', 'Siter', None)


def _debug_only_effects(ctx, crate, need_role):
    """[(body, block, description)] of cache updates inside a debug_assert! region, and the number of calls scanned"""
    from .effects import classify
    n = 0
    out = []
    for body in crate.bodies.values():
        if need_role and ctx.role(body) is None:
            continue
        # the region that only exists with debug assertions: `debug_assert!(c)` is `if cfg!(debug_assertions) { assert!(c) }`;
        # the switch on that constant carries the expansion chain, the blocks dominated by its true edge are the region
        # (the tokens of the *argument* keep their own spans, so they cannot be recognised by their expansion)
        region = set()
        for sb in range(body.n):
            st_ = body.term(sb)
            if st_['k'] == 'switch' and any(m in DEBUG_ONLY for m in (st_.get('macros') or [])) and any(m.endswith('cfg') for m in st_.get('macros') or []):
                false_t = [tb for v, tb in st_['targets'] if v == 0]
                true_t = st_['otherwise'] if false_t else None
                if true_t is not None and true_t not in false_t:
                    region |= {b_ for b_ in range(body.n) if body.dominates(true_t, b_)}
        for bi, t in body.calls():
            n += 1
            if bi not in region:
                continue
            cn = callee_name(t)
            k = classify(t)
            eff = None
            if k not in PURE_KINDS:
                eff = 'store / queue update (%s)' % (k if isinstance(k, str) else '/'.join(k))
            elif cn.startswith('cachelito_core::') and not cn.endswith(('::is_expired', '::len', '::is_empty', '::contains_key')):
                eff = 'call of %s' % (cn.rsplit('::', 2)[-2] + '::' + cn.rsplit('::', 1)[-1])
            elif cn.startswith('core::sync::atomic::') and cn.rsplit('::', 1)[-1] in ('fetch_add', 'fetch_sub', 'store', 'swap', 'compare_exchange', 'fetch_update'):
                eff = 'atomic update (%s)' % cn.rsplit('::', 1)[-1]
            elif cn.startswith(('std::collections::', 'alloc::collections::', 'alloc::vec::Vec::', 'hashbrown::', 'dashmap::')) and cn.rsplit('::', 1)[-1] in (
                    'insert', 'remove', 'clear', 'retain', 'push', 'push_back', 'push_front', 'pop', 'pop_back', 'pop_front', 'extend', 'drain', 'truncate', 'swap_remove',
                    'remove_entry', 'entry', 'take', 'replace', 'append', 'split_off', 'or_insert', 'or_insert_with', 'or_default'):
                # registry tables, scratch collections that are later written back, ...: any update of a collection
                eff = 'collection update (%s)' % (cn.rsplit('::', 2)[-2] + '::' + cn.rsplit('::', 1)[-1])
            if eff:
                out.append((body, bi, t, eff))
    return out, n


def check_no_effects_in_debug_assert(run, ctx, rule):
    """the argument of debug_assert! is compiled out when debug assertions are off (release builds): a store / queue /
    statistics update or a call of a library function written inside it silently disappears there.  The facts are built
    with debug assertions on, so the code looks complete."""
    n = 0
    hits = 0
    for crate in (ctx.core, ctx.fx_sync, ctx.fx_async):
        found, m = _debug_only_effects(ctx, crate, crate is not ctx.core)
        n += m
        for (body, bi, t, eff) in found:
            hits += 1
            run.bad(rule, '%s/effect-inside-debug_assert' % ctx.label(body), '%s performs a %s inside `debug_assert!` (%s): the argument of debug_assert! is not evaluated in builds '
                    'without debug assertions, so in a release build this step silently does not happen' % (body.name, eff, t.get('span')),
                    site='%s (%s)' % (body.name, t.get('span')), oracle='no side effect inside debug_assert!')
    if not hits:
        run.ok(rule, 'no-effects-in-debug_assert', '%d calls scanned; none that updates the cache sits inside a debug_assert! region' % n)
    run.require(rule, 'calls scanned for debug-only effects', n, 3000)
    # planted positive and its twin in the selftest crate
    sf, _ = _debug_only_effects(ctx, ctx.selftest, False)
    names = {b.name.rsplit('::', 1)[-1] for (b, _, _, _) in sf}
    if 'debug_only_effect' not in names:
        run.bad(rule, 'fail-closed/selftest/debug_only_effect', 'fail-closed: the planted positive "debug_only_effect" in /verif/selftest was not flagged; the rule is blind',
                oracle='selftest positive must be flagged')
    else:
        run.ok(rule, 'selftest/debug_only_effect', 'planted positive flagged')
    if 'effect_then_debug_assert' in names:
        run.bad(rule, 'fail-closed/selftest/negative', 'fail-closed: the negative twin effect_then_debug_assert was flagged')
    return n


def check_enum_equality(run, ctx, rule):
    """the specialiser folds `policy == X` / `scope == X` by comparing variants.  That is only right if the PartialEq impls of
    EvictionPolicy and CacheScope are variant equality, so the impls themselves are evaluated here for every pair of variants
    (a hand-written `match (self, other)` with one wrong arm makes `TLRU == TLRU` false and silently disables whatever the
    library guards with that test)."""
    n = 0
    for adt in (N.POLICY, N.SCOPE):
        a = ctx.core.adts.get(adt)
        if a is None:
            run.bad(rule, '%s/fail-closed' % adt.rsplit('::', 1)[-1], 'fail-closed: %s not found' % adt)
            continue
        nv = len(a['variants'])
        names = [v['name'] for v in a['variants']]
        bodies = [b for b in ctx.core.bodies.values() if (b.js.get('impl_trait') or '').endswith('cmp::PartialEq') and b.impl_self == adt and b.name.endswith('::eq')]
        short = adt.rsplit('::', 1)[-1]
        if len(bodies) != 1:
            run.bad(rule, '%s/fail-closed' % short, 'fail-closed: expected one PartialEq::eq for %s, found %d' % (adt, len(bodies)))
            continue
        body = bodies[0]
        ex = Expr(body)
        n += 1
        if any(callee_name(t).endswith('discriminant_value') for _, t in body.calls()):
            # derive(PartialEq) on a field-less enum: discriminant_value(self) == discriminant_value(other)
            eqs = [st for bl in body.blocks for st in bl['stmts'] if st['k'] == 'assign' and st['rv'].get('bin') == 'Eq']
            if len(eqs) == 1 and not any(body.term(i)['k'] == 'switch' for i in range(body.n)):
                run.ok(rule, short, 'derived: equality of discriminants')
            else:
                run.bad(rule, '%s/unrecognised-form' % short, 'PartialEq for %s calls discriminant_value but is not the derived comparison' % adt, site=body.name)
            continue
        dcalls = [t for _, t in body.calls() if callee_name(t) == 'core::mem::discriminant']
        if len(dcalls) == 2 and not any(body.term(i)['k'] == 'switch' for i in range(body.n)):
            # mem::discriminant(self) == mem::discriminant(other)
            argsd = sorted(str(strip_casts(ex.operand(t['args'][0]))) for t in dcalls)
            eqc = [t for _, t in body.calls() if callee_name(t) == N.PARTIAL_EQ and 'Discriminant' in (t['callee'].get('self_ty') or '')]
            rets = [ex._def(d, 0) for d in body.defs.get(0, [])]
            if argsd == [str(('param', 1)), str(('param', 2))] and len(eqc) == 1 and len(rets) == 1 and strip_casts(rets[0])[0] == 'call' and strip_casts(rets[0])[1] == N.PARTIAL_EQ:
                run.ok(rule, short, 'mem::discriminant(self) == mem::discriminant(other)')
            else:
                run.bad(rule, '%s/unrecognised-form' % short, 'PartialEq for %s uses mem::discriminant but is not the plain comparison of both' % adt, site=body.name)
            continue
        wrong = []
        for i in range(nv):
            for j in range(nv):
                b = 0
                ret = None
                steps = 0
                while steps < 200:
                    steps += 1
                    for st in body.blocks[b]['stmts']:
                        if st['k'] == 'assign' and st['dst']['l'] == 0 and not st['dst'].get('proj') and 'use' in st['rv'] and 'const' in st['rv']['use']:
                            ret = st['rv']['use']['const'].get('int')
                    t = body.term(b)
                    if t['k'] == 'return':
                        break
                    if t['k'] == 'goto':
                        b = t['target']
                        continue
                    if t['k'] == 'switch':
                        e = ex.operand(t['discr'])
                        v = None
                        if e[0] == 'discr' and strip_casts(e[1]) == ('param', 1):
                            v = i
                        elif e[0] == 'discr' and strip_casts(e[1]) == ('param', 2):
                            v = j
                        if v is None:
                            ret = 'unrecognised'
                            break
                        nxt = None
                        for val, tb in t['targets']:
                            if val == v:
                                nxt = tb
                        b = nxt if nxt is not None else t['otherwise']
                        continue
                    ret = 'unrecognised'
                    break
                if ret == 'unrecognised' or ret is None:
                    wrong.append(('?', names[i], names[j]))
                elif bool(ret) != (i == j):
                    wrong.append((bool(ret), names[i], names[j]))
        if any(w[0] == '?' for w in wrong):
            run.bad(rule, '%s/unrecognised-form' % short, 'cannot evaluate PartialEq::eq of %s for every pair of variants' % adt, site=body.name)
        elif wrong:
            run.bad(rule, '%s/not-variant-equality' % short, '`==` on %s is not equality of variants: %s' % (adt, ', '.join('%s == %s is %s' % (x, y, str(r).lower()) for (r, x, y) in wrong[:4])),
                    site=body.name, oracle='a == b iff same variant')
        else:
            run.ok(rule, short, '%d x %d pairs: equal iff same variant' % (nv, nv))
    run.require(rule, 'enum equality impls', n, 2)
    return n
