"""Engine X: explicit panic sites on cache-operation paths (C16-R2)."""
from .facts import callee_name
from .expr import Expr, show, calls_in, strip_casts, walk, field_path
from . import names as N

PANICKY = ('core::option::Option::unwrap', 'core::option::Option::expect', 'core::result::Result::unwrap', 'core::result::Result::expect',
           'core::result::Result::unwrap_err', 'core::result::Result::expect_err', 'core::ops::index::Index::index', 'core::ops::index::IndexMut::index_mut',
           'core::slice::<impl [T]>::swap', 'alloc::collections::vec_deque::VecDeque::swap', 'alloc::vec::Vec::remove', 'alloc::vec::Vec::swap_remove',
           'alloc::vec::Vec::insert', 'alloc::collections::vec_deque::VecDeque::insert')
PANIC_FNS = ('core::panicking::', 'std::rt::begin_panic', 'core::option::expect_failed', 'core::result::unwrap_failed')
ASSERT_KINDS = ('BoundsCheck', 'DivisionByZero', 'RemainderByZero')


def _classify_site(ex, cn, t):
    """('environment', reason) | ('guarded', reason) | ('data', description)"""
    a0 = ex.operand(t['args'][0]) if t['args'] else None
    if ' on ' in cn:
        return 'data', 'time arithmetic that panics when the result would be negative / out of range: %s' % ', '.join(show(ex.operand(a)) for a in t['args'])
    if cn.startswith('core::result::Result::') and a0 is not None:
        inner = strip_casts(a0)
        if inner[0] == 'call' and inner[1] == 'std::time::SystemTime::duration_since':
            args = inner[2]
            if len(args) == 2 and args[0][0] == 'call' and args[0][1] == 'std::time::SystemTime::now' and args[1][0] == 'static' and args[1][1].endswith('UNIX_EPOCH'):
                return 'environment', 'SystemTime::now().duration_since(UNIX_EPOCH): fails only if the system clock is before 1970'
    return 'data', show(a0) if a0 is not None else cn


def check_panic_sites(run, ctx):
    crates = [ctx.core, ctx.fx_sync, ctx.fx_async]
    n = 0
    env = 0
    bodies = 0
    for crate in crates:
        for body in crate.bodies.values():
            role = ctx.role(body)
            if crate is not ctx.core:
                # generated code only; the user body closure / inner future is the user's
                if role is None or role.endswith(':closure'):
                    continue
            if body.name.startswith('<') and ' as core::' in body.name:
                continue  # derive-generated std trait impls (unreachable!() in derived PartialEq etc.)
            bodies += 1
            ex = None
            for bi, bl in enumerate(body.blocks):
                if bl['cleanup']:
                    continue
                t = bl['term']
                site = None
                if t['k'] == 'assert' and t['msg'] in ASSERT_KINDS:
                    site = ('assert:' + t['msg'], None)
                elif t['k'] == 'call':
                    cn = callee_name(t)
                    if cn in PANICKY or cn.startswith(PANIC_FNS):
                        site = (cn, t)
                    elif cn in ('core::ops::arith::Sub::sub', 'core::ops::arith::SubAssign::sub_assign', 'core::ops::arith::Div::div', 'core::ops::arith::Rem::rem',
                                'core::ops::arith::Mul::mul', 'core::ops::arith::Add::add', 'core::ops::arith::AddAssign::add_assign'):
                        r = t['callee'].get('resolved') or ''
                        st = t['callee'].get('self_ty') or ''
                        if st in ('core::time::Duration', 'std::time::Instant', 'std::time::SystemTime') and not (cn.endswith('Sub::sub') and st == 'std::time::Instant' and 'Instant>' in r):
                            site = ('%s on %s' % (cn.rsplit('::', 1)[-1], st.rsplit('::', 1)[-1]), t)
                    elif cn in ('core::time::Duration::from_secs_f64', 'core::time::Duration::from_secs_f32', 'core::time::Duration::mul_f64', 'core::time::Duration::div_f64',
                                'std::time::Instant::duration_since', 'core::option::Option::unwrap_unchecked', 'core::hint::unreachable_unchecked'):
                        if cn != 'std::time::Instant::duration_since':
                            site = (cn, t)
                if site is None:
                    continue
                n += 1
                ex = ex or Expr(body)
                label = ctx.label(body)
                if site[1] is None:
                    run.bad('C16-R2', '%s/%s' % (label, site[0]), 'a %s check that can fail at run time sits on a cache path in %s (%s)' % (t['msg'], body.name, t.get('span')),
                            site='%s (%s)' % (body.name, t.get('span')), oracle='no unguarded data-dependent panic site on cache-operation paths')
                    continue
                kind, why = _classify_site(ex, site[0], site[1])
                short = site[0].rsplit('::', 1)[-1]
                if kind == 'environment':
                    env += 1
                    run.ok('C16-R2', '%s/%s/environment/bb%d' % (label, short, bi), why)
                else:
                    run.bad('C16-R2', '%s/%s' % (label, short), '%s on a value derived from cache contents or arguments can panic in %s (%s): operand %s' % (short, body.name, t.get('span'), why),
                            site='%s (%s)' % (body.name, t.get('span')), oracle='unwrap/expect/index only on environment values (reviewed) or behind a dominating presence test')
    run.require('C16-R2', 'bodies scanned for panic sites', bodies, 400)
    run.require('C16-R2', 'reviewed environment sites', env, 4)
    return n
