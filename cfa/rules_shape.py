"""Sibling / shape agreement rules (engine S) over cachelito-core."""
from collections import defaultdict
from .facts import callee_name
from .effects import classify, Effects
from .expr import Expr, walk, calls_in, strip_casts, field_path, show
from .roles import Roles, EST
from .types import parse, strip_refs
from . import names as N

ATOMIC = 'core::sync::atomic::Atomic::'


def _calls(body, name=None, prefix=None):
    out = []
    for b, t in body.calls():
        cn = callee_name(t)
        if (name and cn == name) or (prefix and cn.startswith(prefix)):
            out.append((b, t, cn))
    return out


def check_stats_shapes(run, ctx):
    """C15-S1 counters atomic and unswapped; C15-S2 registry touches one entry"""
    core = ctx.core
    S = N.STATS + '::'
    table = [('record_hit', 'fetch_add', 'hits', 1), ('record_miss', 'fetch_add', 'misses', 1),
             ('hits', 'load', 'hits', None), ('misses', 'load', 'misses', None)]
    n = 0
    for (fn, op, fld, arg) in table:
        body = ctx.core_fn(S + fn)
        n += 1
        if body is None:
            run.bad('C15-S1', fn + '/fail-closed', 'fail-closed: CacheStats::%s not found' % fn)
            continue
        ex = Expr(body)
        ats = _calls(body, prefix=ATOMIC)
        ok = False
        if len(ats) == 1:
            b, t, cn = ats[0]
            recv = ex.operand(t['args'][0])
            root, names = field_path(recv)
            if cn.endswith('::' + op) and names[-1:] == [fld] and root == ('param', 1):
                if arg is None:
                    ok = True
                else:
                    a1 = ex.operand(t['args'][1])
                    ok = a1[0] == 'const' and a1[1] == arg
        if ok:
            run.ok('C15-S1', fn, 'one atomic %s on field `%s`' % (op, fld))
        else:
            run.bad('C15-S1', fn + '/shape', 'CacheStats::%s must be exactly one atomic %s%s on field `%s`; found %s' % (
                fn, op, '(1)' if arg else '', fld, [(cn.rsplit('::', 1)[-1], show(ex.operand(t['args'][0]))) for (b, t, cn) in ats]), site=body.name,
                oracle='atomic read-modify-write on the same-named counter')
    body = ctx.core_fn(S + 'reset')
    n += 1
    if body is None:
        run.bad('C15-S1', 'reset/fail-closed', 'fail-closed: CacheStats::reset not found')
    else:
        ex = Expr(body)
        ats = _calls(body, prefix=ATOMIC)
        flds = []
        for (b, t, cn) in ats:
            root, names = field_path(ex.operand(t['args'][0]))
            a1 = ex.operand(t['args'][1]) if len(t['args']) > 1 else None
            if cn.endswith('::store') and a1 and a1[0] == 'const' and a1[1] == 0:
                flds.append(names[-1] if names else '?')
        if sorted(flds) == ['hits', 'misses']:
            run.ok('C15-S1', 'reset', 'stores 0 to hits and misses')
        else:
            run.bad('C15-S1', 'reset/shape', 'CacheStats::reset must store 0 to both counters; found stores to %s' % flds, site=body.name)
    # registry
    R = 'cachelito_core::stats_registry::'
    for fn in ('reset', 'get'):
        body = ctx.core_fn(R + fn)
        n += 1
        if body is None:
            run.bad('C15-S2', 'registry-%s/fail-closed' % fn, 'fail-closed: stats_registry::%s not found' % fn)
            continue
        ex = Expr(body)
        gets = _calls(body, name=N.HM + 'get')
        iters = [c for c in body.calls() if callee_name(c[1]) in (N.HM + 'values', N.HM + 'iter', N.HM + 'values_mut', N.HM + 'iter_mut', N.HM + 'keys')]
        by_name = False
        for (b, t, cn) in gets:
            k = ex.operand(t['args'][1])
            if k == ('param', 1):
                by_name = True
        if fn == 'reset':
            rs = _calls(body, name=N.STATS + '::reset')
            ok = len(rs) == 1 and by_name and not iters
            if ok:
                recv = ex.operand(rs[0][1]['args'][0])
                ok = any(c[1] == N.HM + 'get' for c in calls_in(recv))
            if ok:
                run.ok('C15-S2', 'registry-reset', 'resets only the entry looked up by name')
            else:
                run.bad('C15-S2', 'registry-reset/shape', 'stats_registry::reset(name) must reset exactly the entry looked up under `name` (found %d reset call(s), lookup by name: %s, iteration over all: %s)'
                        % (len(rs), by_name, bool(iters)), site=body.name, oracle='resetting one cache leaves all others unchanged')
        else:
            if by_name and not iters:
                run.ok('C15-S2', 'registry-get', 'returns the entry looked up by name')
            else:
                run.bad('C15-S2', 'registry-get/shape', 'stats_registry::get(name) must look the entry up under `name`', site=body.name)
    reg = ctx.core_fn(R + 'register')
    n += 1
    if reg is None:
        run.bad('C15-S2', 'registry-register/fail-closed', 'fail-closed: stats_registry::register not found')
    else:
        ex = Expr(reg)
        ins = _calls(reg, name=N.HM + 'insert')
        ok = False
        if len(ins) == 1:
            k = ex.operand(ins[0][1]['args'][1])
            v = ex.operand(ins[0][1]['args'][2])
            kk = k[2][0] if (k[0] == 'call' and k[2]) else k
            ok = kk == ('param', 1) and v == ('param', 2)
        if ok:
            run.ok('C15-S2', 'registry-register', 'stores the given stats under the given name')
        else:
            run.bad('C15-S2', 'registry-register/shape', 'stats_registry::register(name, stats) must insert (name -> stats)', site=reg.name)
    return n


# ------------------------------------------------------------------------------------------------
def check_orientation(run, ctx):
    """C07-S1: one orientation for storing, touching and FIFO/LRU victims, in every flavour and path"""
    from . import rules_core as K
    C = K.Core(ctx)
    rows = {}
    # store end and touch end
    srows, _ = K.store_rows(ctx)
    for r in srows:
        a = r['fields']
        if a['policy'] not in (0, 1) or a['limit'] or a['max_memory'] or a['ttl']:
            continue
        ends = set()
        for v in r['outcomes']:
            d = K._vec(v)
            if d['Q>']:
                ends.add('back')
            if d['Q<']:
                ends.add('front')
        rows[(r['flavour'], r['method'], 'store')] = ends
    lrows, _ = K.lookup_scenarios(ctx)
    for r in lrows:
        a = r['fields']
        if a['policy'] == 1 and a['limit'] == 1 and a['max_memory'] == 0 and a['ttl'] == 0 and r['scenario'] == 'fresh':
            ends = set()
            for (ret, v) in r['outcomes']:
                d = K._vec(v)
                if d['Q>']:
                    ends.add('back')
                if d['Q<']:
                    ends.add('front')
            rows[(r['flavour'], 'get', 'touch')] = ends
    erows, _ = K.eviction_rows(ctx)
    for r in erows:
        if r['policy'] in (0, 1) and r['member'] == 1:
            ends = set()
            for v in r['outcomes']:
                d = K._vec(v)
                if d['Q-front']:
                    ends.add('front')
                if d['Q-back']:
                    ends.add('back')
            rows[(r['flavour'], 'limit-eviction/%s' % N.POLICY_VARIANTS[r['policy']], 'victim')] = ends
    # memory loop victims
    for flav, adt in K.FLAVOURS:
        fn = C.method(adt, 'insert_with_memory')
        if fn is None:
            continue
        fit = [(xid, bi) + x for (xid, bi), lst in C.cmp_sites(fn).items() for x in lst if x[0] == 'cmp:fit']
        if len(fit) != 1:
            continue
        (xid, bi, kind, si, op, ra, rb) = fit[0]
        body = ctx.prog.bodies[xid]
        from .roles import normal_form, SYM
        sumrole = ra if ra != 'MAX_MEM' else rb
        left, sym, right = normal_form(op, ra, rb, [sumrole, 'MAX_MEM'])
        raw_false = 0 if (SYM[op] in ('<=', '<')) == (ra == left) else 1
        member = [(x.id, b) for x in C.scope(fn) for b, t in x.calls() if classify(t) == 'S?']
        selected = [(x.id, b) for x in C.scope(fn) for b, t in x.calls() if classify(t) in ('Q-front', 'Q-at', 'Q-back')]
        for p in (0, 1):
            orc = {(xid, bi, si): raw_false}
            for s_ in member + selected:
                orc[s_] = 1
            w = C.weigher({'policy': p, 'limit': 0, 'max_memory': 1, 'ttl': 0}, orc, root=fn)
            sp = w.spec(body)
            from .spec import segment_totals
            ends = set()
            for (how, blk), vs in segment_totals(sp, {bi}, {bi}).items():
                for v in vs:
                    d = K._vec(v)
                    if d['Q-front']:
                        ends.add('front')
                    if d['Q-back']:
                        ends.add('back')
            rows[(flav, 'memory-eviction/%s' % N.POLICY_VARIANTS[p], 'victim')] = ends
    n = 0
    store_end = set()
    for k, ends in sorted(rows.items()):
        n += 1
        if len(ends) != 1:
            run.bad('C07-S1', '%s/%s/%s/ambiguous' % k, 'the %s end of the order queue in %s/%s is %s' % (k[2], k[0], k[1], sorted(ends) or 'never touched'),
                    site='%s %s' % (k[0], k[1]), oracle='one orientation')
            continue
        e = next(iter(ends))
        if k[2] in ('store', 'touch'):
            store_end.add(e)
    if len(store_end) == 1:
        se = next(iter(store_end))
        for k, ends in sorted(rows.items()):
            if len(ends) != 1:
                continue
            e = next(iter(ends))
            if k[2] in ('store', 'touch') and e != se:
                run.bad('C07-S1', '%s/%s/%s/end' % k, '%s/%s puts keys at the %s of the queue while the other paths use the %s' % (k[0], k[1], e, se), site='%s %s' % (k[0], k[1]))
            elif k[2] == 'victim' and e == se:
                run.bad('C07-S1', '%s/%s/victim-end' % (k[0], k[1]), 'the FIFO/LRU victim in %s/%s is taken from the %s of the queue, the end where new and recently used keys are put: '
                        'the newest entry is evicted instead of the oldest' % (k[0], k[1], e), site='%s %s' % (k[0], k[1]), oracle='store end = touch end != victim end')
            else:
                run.ok('C07-S1', '%s/%s/%s' % k, '%s end = %s' % (k[2], e))
    elif store_end:
        run.bad('C07-S1', 'store-touch-disagree', 'new keys and touched keys are put at different ends of the queue in different paths: %s' % {k: sorted(v) for k, v in rows.items() if k[2] != 'victim'},
                oracle='all rows agree')
    run.require('C07-S1', 'orientation rows', n, 20)
    return n


# ------------------------------------------------------------------------------------------------
def check_random_victim(run, ctx):
    """C04-K2: the random victim index is drawn from ..len(queue) and removed from that same queue"""
    core = ctx.core
    roles = Roles(ctx.prog)
    n = 0
    for body in core.bodies.values():
        rnd = _calls(body, prefix='fastrand::')
        if not rnd:
            continue
        ex = Expr(body)
        for (b, t, cn) in rnd:
            n += 1
            key = '%s/bb-random' % body.name
            arg = ex.operand(t['args'][0]) if t['args'] else None
            okr = arg is not None and arg[0] == 'agg' and arg[1].endswith('RangeTo::RangeTo') and roles.role(body, arg[2][0]) == 'LEN_QUEUE' and cn.endswith('::usize')
            # the drawn value is the position passed to VecDeque::remove on the same queue
            used = False
            same_q = False
            for (b2, t2, cn2) in _calls(body, name=N.VD + 'remove'):
                pos = ex.operand(t2['args'][1])
                if pos[0] == 'call' and pos[3] == b:
                    used = True
                    q1 = ex.operand(t2['args'][0])
                    lens = [c for c in calls_in(arg) if c[1] == N.VD + 'len'] if arg else []
                    same_q = bool(lens) and lens[0][2][0] == q1
            if okr and used and same_q:
                run.ok('C04-K2', key, 'fastrand::usize(..queue.len()) indexes the queue it is removed from')
            else:
                run.bad('C04-K2', body.name + '/random-victim', 'the random victim in %s is not a position of the order queue it is removed from (range over queue length: %s, '
                        'used as removal index: %s, same queue: %s)' % (body.name, okr, used, same_q), site='%s (%s)' % (body.name, body.loc(b)),
                        oracle='pos = fastrand::usize(..order.len()); order.remove(pos)')
    run.require('C04-K2', 'random victim draws', n, 6)
    return n


# ------------------------------------------------------------------------------------------------
POSITION = 'core::iter::traits::iterator::Iterator::position'


def check_queue_dedupe(run, ctx):
    """C04-P3: a key is pushed to the queue only after any older occurrence has been removed"""
    from . import rules_core as K
    C = K.Core(ctx)
    eff = Effects(ctx.prog)
    n = 0
    fns = []
    for flav, adt in K.FLAVOURS:
        for m in ('insert', 'insert_with_memory', 'get', 'move_to_end', 'is_already_key_inserted'):
            f = C.method(adt, m)
            if f is not None:
                fns.append((flav, f))
    mk = ctx.core_fn('cachelito_core::utils::move_key_to_end')
    if mk is not None:
        fns.append(('sync', mk))
    for flav, fn in fns:
        for body in C.scope(fn):
            pushes = [(b, t) for (b, k, t) in eff.prim(body) if k in ('Q>', 'Q<')]
            if not pushes:
                continue
            sites = eff.sites(body)
            for (pb, pt) in pushes:
                n += 1
                key = '%s/%s' % (flav, body.name)
                ok = False
                why = ''
                for (b, k, ch) in sites:
                    if k == 'Q-key' and b != pb and body.dominates(b, pb):
                        ok = True
                        why = 'retain(!= key) dominates the push'
                    if k == 'Q-at' and b != pb:
                        # removal at a position found by position(== key): the search must dominate the push
                        for (b2, t2, cn2) in _calls(body, name=POSITION):
                            if body.dominates(b2, pb) and b in body.reachable(b2) and pb in body.reachable(b):
                                ok = True
                                why = 'position(== key) search dominates the push and its hit is removed first'
                if ok:
                    run.ok('C04-P3', key + '/bb%d' % pb, why)
                else:
                    run.bad('C04-P3', key + '/duplicate-queue-key', '%s appends the key to the order queue without first removing an older occurrence: a re-stored or touched key '
                            'is then queued twice and the queue length no longer bounds the store' % body.name, site='%s (%s)' % (body.name, body.loc(pb)),
                            oracle='every push of key k is preceded by the removal of k from the queue')
    run.require('C04-P3', 'queue pushes', n, 8)
    return n


# ------------------------------------------------------------------------------------------------
def check_estimators(run, ctx):
    """C05-S1: estimator impls count capacity (not length) and recurse into every component"""
    core = ctx.core
    n = 0
    SIZE_OF = 'core::mem::size_of'
    SIZE_OF_VAL = 'core::mem::size_of_val'
    want = {
        'alloc::string::String': {'capacity': ['alloc::string::String::capacity'], 'rec': 0, 'forbid': ['alloc::string::String::len']},
        'alloc::vec::Vec<T>': {'capacity': ['alloc::vec::Vec::capacity'], 'rec': 1, 'forbid': []},
        'core::option::Option<T>': {'rec': 1}, 'core::result::Result<T, E>': {'rec': 2},
        '(T1, T2)': {'rec': 2}, '(T1, T2, T3)': {'rec': 3}, 'alloc::boxed::Box<T>': {'rec': 1},
        'alloc::sync::Arc<T>': {'rec': 1}, 'alloc::rc::Rc<T>': {'rec': 1}, '&[T]': {'rec': 1},
        '&str': {'capacity': ['core::str::<impl str>::len'], 'rec': 0},
        'cachelito_core::cache_entry::CacheEntry<R>': {'rec': 1},
    }
    seen = set()
    for body in core.bodies.values():
        if body.js.get('impl_trait') != 'cachelito_core::memory_estimator::MemoryEstimator' or body.kind != 'assoc_fn':
            continue
        st = body.impl_self
        spec = want.get(st)
        scope = [body] + core.descendants(body)
        calls = [callee_name(t) for x in scope for b, t in x.calls()]
        n += 1
        if spec is None:
            run.note('unreviewed MemoryEstimator impl for %s' % st)
            run.ok('C05-S1', st + '/unreviewed', 'impl not in the reviewed table (informational)', trivial=True)
            continue
        seen.add(st)
        rec = calls.count(EST)
        problems = []
        if rec < spec.get('rec', 0):
            problems.append('recurses into %d component(s), needs %d' % (rec, spec['rec']))
        for c in spec.get('capacity', []):
            if c not in calls:
                problems.append('does not use %s' % c.rsplit('::', 1)[-1] + '()')
        for c in spec.get('forbid', []):
            if c in calls:
                problems.append('uses %s() (length, not capacity)' % c.rsplit('::', 1)[-1])
        if SIZE_OF not in calls:
            problems.append('does not add size_of::<Self>()')
        if spec.get('rec', 0) >= 2 and st.startswith('('):
            # each tuple field must be estimated: distinct field indices among the receivers
            idxs = set()
            for x in scope:
                ex = Expr(x)
                for b, t in x.calls():
                    if callee_name(t) == EST:
                        root, names = field_path(ex.operand(t['args'][0]))
                        if names:
                            idxs.add(names[-1])
            if len(idxs) < spec['rec']:
                problems.append('estimates fields %s only' % sorted(idxs))
        if problems:
            run.bad('C05-S1', st + '/estimator', 'MemoryEstimator for %s %s' % (st, '; '.join(problems)), site=body.name,
                    oracle='size = inline size + owned heap capacity, recursively over every component')
        else:
            run.ok('C05-S1', st, 'size_of::<Self>() + %s' % ('capacity' if 'capacity' in spec else '%d recursive estimate(s)' % rec))
    run.require('C05-S1', 'reviewed estimator impls', len(seen), 11)
    return n
