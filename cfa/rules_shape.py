"""Sibling / shape agreement rules (engine S) over cachelito-core."""


def check_stats_shapes(run, ctx):
    pass


def check_orientation(run, ctx):
    pass


def check_random_victim(run, ctx):
    pass


def check_queue_dedupe(run, ctx):
    pass


def check_estimators(run, ctx):
    pass
