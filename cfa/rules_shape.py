"""Sibling / shape agreement rules (engine S) over cachelito-core."""
from collections import defaultdict
from .facts import callee_name
from .effects import classify, Effects
from .expr import Expr, walk, calls_in, strip_casts, field_path, show
from .roles import Roles, EST
from .types import parse, strip_refs
from . import names as N

ATOMIC = 'core::sync::atomic::Atomic::'


def _calls(body, name=None, prefix=None):
    out = []
    for b, t in body.calls():
        cn = callee_name(t)
        if (name and cn == name) or (prefix and cn.startswith(prefix)):
            out.append((b, t, cn))
    return out


def check_stats_shapes(run, ctx):
    """C15-S1 counters atomic and unswapped; C15-S2 registry touches one entry"""
    core = ctx.core
    S = N.STATS + '::'
    table = [('record_hit', 'fetch_add', 'hits', 1), ('record_miss', 'fetch_add', 'misses', 1),
             ('hits', 'load', 'hits', None), ('misses', 'load', 'misses', None)]
    n = 0
    for (fn, op, fld, arg) in table:
        body = ctx.core_fn(S + fn)
        n += 1
        if body is None:
            run.bad('C15-S1', fn + '/fail-closed', 'fail-closed: CacheStats::%s not found' % fn)
            continue
        ex = Expr(body)
        ats = _calls(body, prefix=ATOMIC)
        ok = False
        if len(ats) == 1:
            b, t, cn = ats[0]
            recv = ex.operand(t['args'][0])
            root, names = field_path(recv)
            if cn.endswith('::' + op) and names[-1:] == [fld] and root == ('param', 1):
                if arg is None:
                    ok = True
                else:
                    a1 = ex.operand(t['args'][1])
                    ok = a1[0] == 'const' and a1[1] == arg
        if ok:
            run.ok('C15-S1', fn, 'one atomic %s on field `%s`' % (op, fld))
        else:
            run.bad('C15-S1', fn + '/shape', 'CacheStats::%s must be exactly one atomic %s%s on field `%s`; found %s' % (
                fn, op, '(1)' if arg else '', fld, [(cn.rsplit('::', 1)[-1], show(ex.operand(t['args'][0]))) for (b, t, cn) in ats]), site=body.name,
                oracle='atomic read-modify-write on the same-named counter')
    body = ctx.core_fn(S + 'reset')
    n += 1
    if body is None:
        run.bad('C15-S1', 'reset/fail-closed', 'fail-closed: CacheStats::reset not found')
    else:
        ex = Expr(body)
        ats = _calls(body, prefix=ATOMIC)
        flds = []
        for (b, t, cn) in ats:
            root, names = field_path(ex.operand(t['args'][0]))
            a1 = ex.operand(t['args'][1]) if len(t['args']) > 1 else None
            if cn.endswith('::store') and a1 and a1[0] == 'const' and a1[1] == 0:
                flds.append(names[-1] if names else '?')
        if sorted(flds) == ['hits', 'misses']:
            run.ok('C15-S1', 'reset', 'stores 0 to hits and misses')
        else:
            run.bad('C15-S1', 'reset/shape', 'CacheStats::reset must store 0 to both counters; found stores to %s' % flds, site=body.name)
    # the counters start at zero
    newb = ctx.core_fn(S + 'new')
    n += 1
    if newb is None:
        run.bad('C15-S1', 'new/fail-closed', 'fail-closed: CacheStats::new not found')
    else:
        ex = Expr(newb)
        inits = [ex.operand(t['args'][0]) for b, t in newb.calls() if callee_name(t).endswith('::new') and callee_name(t).startswith(ATOMIC)]
        if len(inits) == 2 and all(i[0] == 'const' and i[1] == 0 for i in inits):
            run.ok('C15-S1', 'new', 'both counters start at 0')
        else:
            run.bad('C15-S1', 'new/initial-value', 'CacheStats::new must start both counters at 0 (found %s): hits + misses would differ from the lookups performed from the start'
                    % [show(i) for i in inits], site=newb.name, oracle='AtomicU64::new(0) twice')
    # registry
    R = 'cachelito_core::stats_registry::'
    for fn in ('reset', 'get'):
        body = ctx.core_fn(R + fn)
        n += 1
        if body is None:
            run.bad('C15-S2', 'registry-%s/fail-closed' % fn, 'fail-closed: stats_registry::%s not found' % fn)
            continue
        ex = Expr(body)
        gets = _calls(body, name=N.HM + 'get')
        iters = [c for c in body.calls() if callee_name(c[1]) in (N.HM + 'values', N.HM + 'iter', N.HM + 'values_mut', N.HM + 'iter_mut', N.HM + 'keys')]
        by_name = False
        for (b, t, cn) in gets:
            k = ex.operand(t['args'][1])
            if k == ('param', 1):
                by_name = True
        if fn == 'reset':
            rs = _calls(body, name=N.STATS + '::reset')
            ok = len(rs) == 1 and by_name and not iters
            if ok:
                recv = ex.operand(rs[0][1]['args'][0])
                ok = any(c[1] == N.HM + 'get' for c in calls_in(recv))
            if ok:
                run.ok('C15-S2', 'registry-reset', 'resets only the entry looked up by name')
            else:
                run.bad('C15-S2', 'registry-reset/shape', 'stats_registry::reset(name) must reset exactly the entry looked up under `name` (found %d reset call(s), lookup by name: %s, iteration over all: %s)'
                        % (len(rs), by_name, bool(iters)), site=body.name, oracle='resetting one cache leaves all others unchanged')
        else:
            if by_name and not iters:
                run.ok('C15-S2', 'registry-get', 'returns the entry looked up by name')
            else:
                run.bad('C15-S2', 'registry-get/shape', 'stats_registry::get(name) must look the entry up under `name`', site=body.name)
    reg = ctx.core_fn(R + 'register')
    n += 1
    if reg is None:
        run.bad('C15-S2', 'registry-register/fail-closed', 'fail-closed: stats_registry::register not found')
    else:
        ex = Expr(reg)
        ins = _calls(reg, name=N.HM + 'insert')
        ok = False
        if len(ins) == 1:
            k = ex.operand(ins[0][1]['args'][1])
            v = ex.operand(ins[0][1]['args'][2])
            IDENT = ('alloc::string::ToString::to_string', 'alloc::borrow::ToOwned::to_owned', 'core::convert::From::from', 'core::convert::Into::into',
                     'alloc::str::<impl str>::to_owned', 'alloc::string::String::from', 'core::clone::Clone::clone')
            kk = k[2][0] if (k[0] == 'call' and k[2] and k[1] in IDENT) else k  # the name as given: no case folding, trimming or other rewriting
            ok = kk == ('param', 1) and v == ('param', 2)
        if ok:
            run.ok('C15-S2', 'registry-register', 'stores the given stats under the given name')
        else:
            run.bad('C15-S2', 'registry-register/shape', 'stats_registry::register(name, stats) must insert (name -> stats)', site=reg.name)
    return n


# ------------------------------------------------------------------------------------------------
def check_orientation(run, ctx):
    """C07-S1: one orientation for storing, touching and FIFO/LRU victims, in every flavour and path"""
    from . import rules_core as K
    C = K.Core(ctx)
    rows = {}
    # store end and touch end
    srows, _ = K.store_rows(ctx)
    for r in srows:
        a = r['fields']
        if a['policy'] not in (0, 1) or a['limit'] or a['max_memory'] or a['ttl']:
            continue
        ends = set()
        for v in r['outcomes']:
            d = K._vec(v)
            if d['Q>']:
                ends.add('back')
            if d['Q<']:
                ends.add('front')
        rows[(r['flavour'], r['method'], 'store')] = ends
    lrows, _ = K.lookup_scenarios(ctx)
    for r in lrows:
        a = r['fields']
        if a['policy'] == 1 and a['limit'] == 1 and a['max_memory'] == 0 and a['ttl'] == 0 and r['scenario'] == 'fresh':
            ends = set()
            for (ret, v) in r['outcomes']:
                d = K._vec(v)
                if d['Q>']:
                    ends.add('back')
                if d['Q<']:
                    ends.add('front')
            rows[(r['flavour'], 'get', 'touch')] = ends
    erows, _ = K.eviction_rows(ctx)
    for r in erows:
        if r['policy'] in (0, 1) and r['member'] == 1:
            ends = set()
            for v in r['outcomes']:
                d = K._vec(v)
                if d['Q-front']:
                    ends.add('front')
                if d['Q-back']:
                    ends.add('back')
            rows[(r['flavour'], 'limit-eviction/%s' % N.POLICY_VARIANTS[r['policy']], 'victim')] = ends
    # memory loop victims
    for flav, adt in K.FLAVOURS:
        fn = C.method(adt, 'insert_with_memory')
        if fn is None:
            continue
        fit = [(xid, bi) + x for (xid, bi), lst in C.cmp_sites(fn).items() for x in lst if x[0] == 'cmp:fit']
        if len(fit) != 1:
            continue
        (xid, bi, kind, si, op, ra, rb) = fit[0]
        body = ctx.prog.bodies[xid]
        from .roles import normal_form, SYM
        sumrole = ra if ra != 'MAX_MEM' else rb
        ftv = C.truth_value(fn, (xid, bi, si), 'fits')
        if ftv is None:
            continue
        raw_false = 1 - ftv
        member = [(x.id, b) for x in C.scope(fn) for b, t in x.calls() if classify(t) == 'S?']
        selected = [(x.id, b) for x in C.scope(fn) for b, t in x.calls() if classify(t) in ('Q-front', 'Q-at', 'Q-back')]
        for p in (0, 1):
            orc = {(xid, bi, si): raw_false}
            for s_ in member + selected:
                orc[s_] = 1
            w = C.weigher({'policy': p, 'limit': 0, 'max_memory': 1, 'ttl': 0}, orc, root=fn)
            sp = w.spec(body)
            from .spec import segment_totals
            ends = set()
            for (how, blk), vs in segment_totals(sp, {bi}, {bi}).items():
                for v in vs:
                    d = K._vec(v)
                    if d['Q-front']:
                        ends.add('front')
                    if d['Q-back']:
                        ends.add('back')
            rows[(flav, 'memory-eviction/%s' % N.POLICY_VARIANTS[p], 'victim')] = ends
    n = 0
    store_end = set()
    for k, ends in sorted(rows.items()):
        n += 1
        if len(ends) != 1:
            run.bad('C07-S1', '%s/%s/%s/ambiguous' % k, 'the %s end of the order queue in %s/%s is %s' % (k[2], k[0], k[1], sorted(ends) or 'never touched'),
                    site='%s %s' % (k[0], k[1]), oracle='one orientation')
            continue
        e = next(iter(ends))
        if k[2] in ('store', 'touch'):
            store_end.add(e)
    if len(store_end) == 1:
        se = next(iter(store_end))
        for k, ends in sorted(rows.items()):
            if len(ends) != 1:
                continue
            e = next(iter(ends))
            if k[2] in ('store', 'touch') and e != se:
                run.bad('C07-S1', '%s/%s/%s/end' % k, '%s/%s puts keys at the %s of the queue while the other paths use the %s' % (k[0], k[1], e, se), site='%s %s' % (k[0], k[1]))
            elif k[2] == 'victim' and e == se:
                run.bad('C07-S1', '%s/%s/victim-end' % (k[0], k[1]), 'the FIFO/LRU victim in %s/%s is taken from the %s of the queue, the end where new and recently used keys are put: '
                        'the newest entry is evicted instead of the oldest' % (k[0], k[1], e), site='%s %s' % (k[0], k[1]), oracle='store end = touch end != victim end')
            else:
                run.ok('C07-S1', '%s/%s/%s' % k, '%s end = %s' % (k[2], e))
    elif store_end:
        run.bad('C07-S1', 'store-touch-disagree', 'new keys and touched keys are put at different ends of the queue in different paths: %s' % {k: sorted(v) for k, v in rows.items() if k[2] != 'victim'},
                oracle='all rows agree')
    run.require('C07-S1', 'orientation rows', n, 20)
    return n


# ------------------------------------------------------------------------------------------------
def check_random_victim(run, ctx):
    """C04-K2: the random victim index is drawn from ..len(queue) and removed from that same queue"""
    core = ctx.core
    roles = Roles(ctx.prog)
    n = 0
    for body in core.bodies.values():
        rnd = _calls(body, prefix='fastrand::')
        if not rnd:
            continue
        ex = Expr(body)
        for (b, t, cn) in rnd:
            n += 1
            key = '%s/bb-random' % body.name
            arg = ex.operand(t['args'][0]) if t['args'] else None
            okr = arg is not None and arg[0] == 'agg' and arg[1].endswith('RangeTo::RangeTo') and roles.role(body, arg[2][0]) == 'LEN_QUEUE' and cn.endswith('::usize')
            # the drawn value is the position passed to VecDeque::remove on the same queue
            used = False
            same_q = False
            for (b2, t2, cn2) in _calls(body, name=N.VD + 'remove'):
                pos = ex.operand(t2['args'][1])
                if pos[0] == 'call' and pos[3] == b:
                    used = True
                    q1 = ex.operand(t2['args'][0])
                    lens = [c for c in calls_in(arg) if c[1] == N.VD + 'len'] if arg else []
                    same_q = bool(lens) and lens[0][2][0] == q1
            if okr and used and same_q:
                run.ok('C04-K2', key, 'fastrand::usize(..queue.len()) indexes the queue it is removed from')
            else:
                run.bad('C04-K2', body.name + '/random-victim', 'the random victim in %s is not a position of the order queue it is removed from (range over queue length: %s, '
                        'used as removal index: %s, same queue: %s)' % (body.name, okr, used, same_q), site='%s (%s)' % (body.name, body.loc(b)),
                        oracle='pos = fastrand::usize(..order.len()); order.remove(pos)')
    run.require('C04-K2', 'random victim draws', n, 1)
    return n


# ------------------------------------------------------------------------------------------------
POSITION = 'core::iter::traits::iterator::Iterator::position'


def check_queue_dedupe(run, ctx):
    """C04-P3: a key is pushed to the queue only after any older occurrence has been removed"""
    from . import rules_core as K
    C = K.Core(ctx)
    eff = Effects(ctx.prog)
    n = 0
    fns = []
    for flav, adt in K.FLAVOURS:
        for m in ('insert', 'insert_with_memory', 'get', 'move_to_end', 'is_already_key_inserted'):
            f = C.method(adt, m)
            if f is not None:
                fns.append((flav, f))
    mk = ctx.core_fn('cachelito_core::utils::move_key_to_end')
    if mk is not None:
        fns.append(('sync', mk))
    nroots = len(fns)
    # helpers the roots call directly (an extracted `requeue` helper is judged like inline code)
    from .effects import OPERATIONS
    seen = {f.id for _, f in fns}
    todo = list(fns)
    while todo:
        flav, f = todo.pop()
        for x in C.scope(f):
            for (blk, cb, how) in ctx.prog.call_edges(x):
                if how == 'direct' and cb.crate is ctx.core and cb.id not in seen and cb.name not in OPERATIONS:
                    seen.add(cb.id)
                    fns.append((flav, cb))
                    todo.append((flav, cb))
    for flav, fn in fns:
        for body in C.scope(fn):
            pushes = [(b, t) for (b, k, t) in eff.prim(body) if k in ('Q>', 'Q<')]
            if not pushes:
                continue
            sites = eff.sites(body)
            for (pb, pt) in pushes:
                n += 1
                key = '%s/%s' % (flav, body.name)
                ok = False
                why = ''
                for (b, k, ch) in sites:
                    if k == 'Q-key' and b != pb and body.dominates(b, pb):
                        ok = True
                        why = 'retain(!= key) dominates the push'
                    if k == 'Q-at' and b != pb:
                        # removal at a position found by position(== key): the search must dominate the push
                        for (b2, t2, cn2) in _calls(body, name=POSITION):
                            if body.dominates(b2, pb) and b in body.reachable(b2) and pb in body.reachable(b):
                                ok = True
                                why = 'position(== key) search dominates the push and its hit is removed first'
                if ok:
                    run.ok('C04-P3', key + '/bb%d' % pb, why)
                else:
                    run.bad('C04-P3', key + '/duplicate-queue-key', '%s appends the key to the order queue without first removing an older occurrence: a re-stored or touched key '
                            'is then queued twice and the queue length no longer bounds the store' % body.name, site='%s (%s)' % (body.name, body.loc(pb)),
                            oracle='every push of key k is preceded by the removal of k from the queue')
    run.require('C04-P3', 'store / touch entry points', nroots, 9)
    run.require('C04-P3', 'queue pushes', n, 1)
    return n


# ------------------------------------------------------------------------------------------------
def check_estimators(run, ctx):
    """C05-S1: estimator impls count capacity (not length) and recurse into every component"""
    core = ctx.core
    n = 0
    SIZE_OF = 'core::mem::size_of'
    SIZE_OF_VAL = 'core::mem::size_of_val'
    want = {
        'alloc::string::String': {'capacity': ['alloc::string::String::capacity'], 'rec': 0, 'forbid': ['alloc::string::String::len']},
        'alloc::vec::Vec<T>': {'capacity': ['alloc::vec::Vec::capacity'], 'rec': 1, 'forbid': []},
        'core::option::Option<T>': {'rec': 1}, 'core::result::Result<T, E>': {'rec': 2},
        '(T1, T2)': {'rec': 2}, '(T1, T2, T3)': {'rec': 3}, 'alloc::boxed::Box<T>': {'rec': 1},
        'alloc::sync::Arc<T>': {'rec': 1}, 'alloc::rc::Rc<T>': {'rec': 1}, '&[T]': {'rec': 1},
        '&str': {'capacity': ['core::str::<impl str>::len'], 'rec': 0},
        'cachelito_core::cache_entry::CacheEntry<R>': {'rec': 1},
    }
    seen = set()
    for body in core.bodies.values():
        if body.js.get('impl_trait') != 'cachelito_core::memory_estimator::MemoryEstimator' or body.kind != 'assoc_fn':
            continue
        st = body.impl_self
        spec = want.get(st)
        scope = [body] + core.descendants(body)
        calls = [callee_name(t) for x in scope for b, t in x.calls()]
        n += 1
        if spec is None:
            run.note('unreviewed MemoryEstimator impl for %s' % st)
            run.ok('C05-S1', st + '/unreviewed', 'impl not in the reviewed table (informational)', trivial=True)
            continue
        seen.add(st)
        rec = calls.count(EST)
        problems = []
        if rec < spec.get('rec', 0):
            problems.append('recurses into %d component(s), needs %d' % (rec, spec['rec']))
        for c in spec.get('capacity', []):
            if c not in calls:
                problems.append('does not use %s' % c.rsplit('::', 1)[-1] + '()')
        for c in spec.get('forbid', []):
            if c in calls:
                problems.append('uses %s() (length, not capacity)' % c.rsplit('::', 1)[-1])
        if SIZE_OF not in calls:
            problems.append('does not add size_of::<Self>()')
        if spec.get('rec', 0) >= 2 and st.startswith('('):
            # each tuple field must be estimated: distinct field indices among the receivers
            idxs = set()
            for x in scope:
                ex = Expr(x)
                for b, t in x.calls():
                    if callee_name(t) == EST:
                        root, names = field_path(ex.operand(t['args'][0]))
                        if names:
                            idxs.add(names[-1])
            if len(idxs) < spec['rec']:
                problems.append('estimates fields %s only' % sorted(idxs))
        if problems:
            run.bad('C05-S1', st + '/estimator', 'MemoryEstimator for %s %s' % (st, '; '.join(problems)), site=body.name,
                    oracle='size = inline size + owned heap capacity, recursively over every component')
        else:
            run.ok('C05-S1', st, 'size_of::<Self>() + %s' % ('capacity' if 'capacity' in spec else '%d recursive estimate(s)' % rec))
    run.require('C05-S1', 'reviewed estimator impls', len(seen), 11)
    return n


# ------------------------------------------------------------------------------------------------
def check_result_store(run, ctx):
    """C09-S1: the four insert_result* store only in the Ok arm, and store Ok(clone(payload))"""
    n = 0
    for adt in (N.GLOBAL, N.THREAD):
        for m, target in (('insert_result', 'insert'), ('insert_result_with_memory', 'insert_with_memory')):
            body = ctx.core_fn('%s::%s' % (adt, m))
            key = '%s::%s' % (adt.rsplit('::', 1)[-1], m)
            n += 1
            if body is None:
                run.bad('C09-S1', key + '/fail-closed', 'fail-closed: %s::%s not found' % (adt, m))
                continue
            ex = Expr(body)
            stores = [(b, t) for b, t in body.calls() if callee_name(t) in ('%s::%s' % (adt, 'insert'), '%s::%s' % (adt, 'insert_with_memory'))]
            if len(stores) != 1 or callee_name(stores[0][1]) != '%s::%s' % (adt, target):
                run.bad('C09-S1', key + '/store-call', '%s must make exactly one call to %s; found %s' % (key, target, [callee_name(t).rsplit('::', 1)[-1] for b, t in stores]), site=body.name)
                continue
            sb, st = stores[0]
            # the switch on the discriminant of the value parameter
            sw = None
            for b in range(body.n):
                t = body.term(b)
                if t['k'] == 'switch':
                    e = ex.operand(t['discr'])
                    if e[0] == 'discr' and e[1] == ('param', 3):
                        sw = (b, t)
            if sw is None:
                run.bad('C09-S1', key + '/no-variant-test', '%s stores without testing the variant of the result: Err values are stored' % key, site=body.name, oracle='store only in the Ok arm')
                continue
            b, t = sw
            ok_target = None
            for v, tb in t['targets']:
                if v == 0:
                    ok_target = tb
            others = [tb for v, tb in t['targets'] if v != 0] + ([t['otherwise']] if ok_target is not None else [])
            if ok_target is None:
                # `if let Ok` may be encoded as switch [1 -> err] otherwise ok
                ok_target = t['otherwise']
                others = [tb for v, tb in t['targets']]
            in_ok = body.dominates(ok_target, sb) and not any(sb in body.reachable(o) and not body.dominates(ok_target, o) for o in others if o != ok_target)
            val = strip_casts(ex.operand(st['args'][2]))
            payload_ok = val[0] == 'agg' and val[1] == N.RESULT + '::Ok' and any(
                field_path(strip_casts(x))[1][-2:] == ['as:Ok', '0'] and field_path(strip_casts(x))[0] == ('param', 3) for x in walk(val))
            keyarg = ex.operand(st['args'][1])
            # nothing else may touch the store or the queue (an Err must leave an earlier Ok in place)
            eff = Effects(ctx.prog, stop_at_operations=True)
            other = sorted({k for (b_, k, ch) in eff.sites(body) if k[0] in 'SQ' and k not in ('Sget', 'S?', 'Slen', 'Qlen', 'Qiter', 'Siter')})
            if other:
                run.bad('C09-S1', key + '/extra-effects', '%s also performs %s besides its Ok-only store: an Err outcome then changes what is cached (e.g. drops an Ok stored by a '
                        'concurrent or earlier call)' % (key, other), site=body.name, oracle='an Err outcome has no effect on the cache')
            elif sb != ok_target and any(x in body.exits() for x in body.reachable(ok_target, blocked=(sb,))):
                run.bad('C09-S1', key + '/ok-not-always-stored', '%s can return from the Ok arm without storing: an Ok result (e.g. the refreshed value after invalidate_on reported the '
                        'old one stale) is then dropped and the body runs again on every call' % key, site=body.name, oracle='every path through the Ok arm reaches the store')
            elif not in_ok:
                run.bad('C09-S1', key + '/stores-err', '%s reaches its store call from the Err arm: Err values are cached' % key, site=body.name, oracle='store control-dependent on discriminant == Ok')
            elif not payload_ok or keyarg != ('param', 2):
                run.bad('C09-S1', key + '/payload', '%s must store Ok(clone of the Ok payload) under the given key; stores %s under %s' % (key, show(val), show(keyarg)), site=body.name)
            else:
                run.ok('C09-S1', key, 'store only in the Ok arm, value Ok(payload.clone())')
    run.require('C09-S1', 'insert_result* functions', n, 4)
    return n


# ------------------------------------------------------------------------------------------------
REG = N.REGISTRY + '::'
TABLES = {'tags': 'tag_to_caches', 'events': 'event_to_caches', 'dependencies': 'dependency_to_caches'}


def _lock_field(e):
    """field of the registry whose lock the expression was obtained from (through read()/write())"""
    for c in calls_in(e):
        if c[1] in ('lock_api::rwlock::RwLock::read', 'lock_api::rwlock::RwLock::write'):
            root, names = field_path(c[2][0])
            if names:
                return names[-1], c[1].rsplit('::', 1)[-1]
    return None, None


def check_registry_tables(run, ctx):
    """C12-S1 register/lookup table agreement; C12-S2 every looked-up callback runs and is counted once"""
    n = 0
    reg = ctx.core_fn(REG + 'register')
    if reg is None:
        run.bad('C12-S1', 'register/fail-closed', 'fail-closed: InvalidationRegistry::register not found')
    else:
        ex = Expr(reg)
        pairs = set()
        for b, t in reg.calls():
            if callee_name(t) == N.HM + 'entry':
                fld, mode = _lock_field(ex.operand(t['args'][0]))
                keye = ex.operand(t['args'][1])
                src = None
                for c in calls_in(keye):
                    if c[1].endswith('IntoIterator::into_iter'):
                        root, names = field_path(c[2][0])
                        if root == ('param', 3) and names:
                            src = names[-1]
                # the set receives the cache name
                pairs.add((src, fld, mode))
        n += 1
        want = {(k, v, 'write') for k, v in TABLES.items()}
        # every element of each list is filed: the entry() call of a loop is control-dependent on nothing but the iterator
        for b, t in reg.calls():
            if callee_name(t) == N.HM + 'entry':
                for (br, succ) in reg.cdeps.get(b, ()):
                    de = ex.operand(reg.term(br)['discr']) if reg.term(br)['k'] == 'switch' else None
                    is_scan = de is not None and de[0] == 'discr' and any(c[1].endswith('Iterator::next') for c in calls_in(de[1]))
                    if not is_scan:
                        run.bad('C12-S1', 'register/conditional-filing', 'register files a tag / event / dependency only under an extra condition (%s): some declared names are never '
                                'entered into the table, so invalidating by them misses this cache' % reg.loc(br), site='%s (%s)' % (reg.name, reg.loc(br)),
                                oracle='every declared tag, event and dependency is filed')
        if pairs != want:
            run.bad('C12-S1', 'register/table-mismatch', 'register files metadata lists into the wrong table: found (list, table, lock) %s, expected %s' % (sorted(pairs, key=str), sorted(want)),
                    site=reg.name, oracle='tags -> tag_to_caches, events -> event_to_caches, dependencies -> dependency_to_caches')
        else:
            run.ok('C12-S1', 'register', 'tags/events/dependencies are filed into their own tables')
        # the inserted member is the cache name
        ins = [(b, t) for b, t in reg.calls() if callee_name(t) == N.HASHSET + '::insert']
        names_ok = all(any(x == ('param', 2) for x in walk(ex.operand(t['args'][1]))) for b, t in ins)
        if len(ins) != 3 or not names_ok:
            run.bad('C12-S1', 'register/member', 'register must add the cache name to each of the three sets (found %d insertions, all with the cache name: %s)' % (len(ins), names_ok), site=reg.name)
        else:
            run.ok('C12-S1', 'register/member', 'cache name inserted into the three sets')
    # the routine that runs a set of clear callbacks: found by its dyn call inside a loop, not by name
    ic_body = None
    for f in ctx.core.bodies.values():
        if f.name.startswith(REG) and f.kind == 'assoc_fn' and f.name != REG + 'invalidate_cache':
            if any(ctx.prog.dyn_call_kind(f, t) == 'clear' for b, t in f.calls()) and any(callee_name(t).endswith('Iterator::next') for b, t in f.calls()):
                ic_body = f
    for k, fld in TABLES.items():
        fn = {'tags': 'invalidate_by_tag', 'events': 'invalidate_by_event', 'dependencies': 'invalidate_by_dependency'}[k]
        body = ctx.core_fn(REG + fn)
        n += 1
        if body is None:
            run.bad('C12-S1', fn + '/fail-closed', 'fail-closed: %s not found' % fn)
            continue
        # the lookup may live in a helper of the registry (e.g. the public getters): judge the transitive scope
        scope = [body]
        seen = {body.id}
        todo = [body]
        while todo:
            x = todo.pop()
            for (blk, cb, how) in ctx.prog.call_edges(x):
                if cb.crate is ctx.core and cb.id not in seen and (ic_body is None or cb.id != ic_body.id) and \
                        (cb.name.startswith(REG) or cb.parent in seen) and cb.name != REG + 'global':
                    seen.add(cb.id)
                    scope.append(cb)
                    todo.append(cb)
        fields = set()
        mods = []
        filters = []
        gets = []
        runner_calls = 0
        for x in scope:
            ex = Expr(x)
            for b, t in x.calls():
                cn = callee_name(t)
                if cn in ('lock_api::rwlock::RwLock::read', 'lock_api::rwlock::RwLock::write'):
                    root, names = field_path(ex.operand(t['args'][0]))
                    if names:
                        fields.add(names[-1])
                if cn in (N.HM + 'remove', N.HM + 'clear', N.HM + 'insert', N.HM + 'retain', N.HM + 'drain', N.HM + 'remove_entry', N.HASHSET + '::remove', N.HASHSET + '::retain'):
                    mods.append(cn.rsplit('::', 1)[-1])
                if cn.rsplit('::', 1)[-1] in ('filter', 'filter_map', 'skip', 'take', 'take_while', 'skip_while', 'step_by', 'skip_last') and 'iter' in cn:
                    filters.append(cn.rsplit('::', 1)[-1])
                if cn == N.HM + 'get':
                    gets.append((x, b, t, ex))
                if ic_body is not None and any(cb.id == ic_body.id for cb in ctx.prog.lookup(t)):
                    runner_calls += 1
        probs = []
        if mods:
            run.bad('C12-S1', fn + '/consumes-registration', '%s modifies the registry table (%s): a cache is registered once, so the next invalidation by the same name no longer finds it'
                    % (fn, ', '.join(mods)), site=body.name, oracle='invalidation reads the tables, registration writes them')
            continue
        if fields - {'clear_callbacks'} != {fld}:
            probs.append('reads table(s) %s instead of %s' % (sorted(fields - {'clear_callbacks'}), fld))
        if filters:
            probs.append('drops some of the looked-up caches (%s)' % ', '.join(filters))
        if len(gets) != 1:
            probs.append('%d table lookups' % len(gets))
        else:
            x, b, t, ex = gets[0]
            ke = ex.operand(t['args'][1])
            if not (ke[0] == 'param' and ke[1] >= 2):
                probs.append('looks up %s instead of its argument' % show(ke))
        if runner_calls != 1:
            probs.append('the clear-callback runner is called %d times' % runner_calls)
        ex0 = Expr(body)
        ret = [ex0._def(d, 0) for d in body.defs.get(0, [])]
        if ic_body is not None and not all(r[0] == 'call' and any(cb.id == ic_body.id for cb in ctx.prog.lookup(body.term(r[3]))) for r in ret):
            probs.append('does not return the runner\'s count')
        if probs:
            run.bad('C12-S1', fn + '/table-mismatch', '%s must look its argument up in %s, hand every cache found there to the clear-callback runner and return its count: %s'
                    % (fn, fld, '; '.join(probs)), site=body.name, oracle='lookup in the same table register wrote; every matching cache is cleared')
        else:
            run.ok('C12-S1', fn, 'reads %s, invalidates the looked-up set, returns its count' % fld)
    mn = ctx.core_fn(N.METADATA + '::new')
    n += 1
    if mn is not None:
        ex = Expr(mn)
        aggs = [ex._def(d, 0) for d in mn.defs.get(0, [])]
        good = len(aggs) == 1 and aggs[0][0] == 'agg' and aggs[0][2] == [('param', 1), ('param', 2), ('param', 3)]
        if good:
            run.ok('C12-S1', 'InvalidationMetadata::new', 'parameter i -> field i')
        else:
            run.bad('C12-S1', 'InvalidationMetadata::new/order', 'InvalidationMetadata::new must map (tags, events, dependencies) to the same-named fields in order; builds %s'
                    % [show(a) for a in aggs], site=mn.name)
    else:
        run.bad('C12-S1', 'InvalidationMetadata::new/fail-closed', 'fail-closed: InvalidationMetadata::new not found')
    # S2
    ic = ic_body
    n += 1
    if ic is None:
        run.bad('C12-S2', 'invalidate_caches/fail-closed', 'fail-closed: no registry routine runs a set of clear callbacks in a loop')
    else:
        ex = Expr(ic)
        dyn = [(b, t) for b, t in ic.calls() if ctx.prog.dyn_call_kind(ic, t) == 'clear']
        incs = []
        for bi, bl in enumerate(ic.blocks):
            if bl['cleanup']:
                continue
            for st in bl['stmts']:
                if st['k'] == 'assign' and 'bin' in st['rv'] and st['rv']['bin'] in ('AddWithOverflow', 'Add'):
                    b_ = ex.operand(st['rv']['b'])
                    if b_[0] == 'const' and b_[1] == 1:
                        incs.append(bi)
        gets = [(b, t) for b, t in ic.calls() if callee_name(t) == N.HM + 'get']
        fld = _lock_field(ex.operand(gets[0][1]['args'][0]))[0] if gets else None
        okk = len(dyn) == 1 and len(incs) == 1 and len(gets) == 1 and fld == 'clear_callbacks'
        if okk:
            db = dyn[0][0]
            okk = ic.dominates(db, incs[0]) and ic.dominates(gets[0][0], db)
            # nothing between the call and the increment can skip the increment: the increment post-dominates the call
            okk = okk and ic.postdominates(incs[0], db)
            # the callee object is the looked-up entry
            callee_obj = ex.operand(dyn[0][1]['args'][0])
            okk = okk and any(c[1] == N.HM + 'get' and c[3] == gets[0][0] for c in calls_in(callee_obj))
            ret = [ex._def(d, 0) for d in ic.defs.get(0, [])]
        if okk:
            run.ok('C12-S2', 'invalidate_caches', 'each looked-up callback is invoked and counted exactly once')
        else:
            run.bad('C12-S2', 'invalidate_caches/count', 'invalidate_caches must invoke every callback it finds in clear_callbacks and count exactly those (dyn calls %d, increments %d, lookups %d in %s)'
                    % (len(dyn), len(incs), len(gets), fld), site=ic.name, oracle='count == number of caches actually cleared')
    iv = ctx.core_fn(REG + 'invalidate_cache')
    n += 1
    if iv is None:
        run.bad('C12-S2', 'invalidate_cache/fail-closed', 'fail-closed: invalidate_cache not found')
    else:
        ex = Expr(iv)
        dyn = [(b, t) for b, t in iv.calls() if ctx.prog.dyn_call_kind(iv, t) == 'clear']
        gets = [(b, t) for b, t in iv.calls() if callee_name(t) == N.HM + 'get']
        okk = len(dyn) == 1 and len(gets) == 1 and _lock_field(ex.operand(gets[0][1]['args'][0]))[0] == 'clear_callbacks' and ex.operand(gets[0][1]['args'][1]) == ('param', 2)
        if okk:
            db = dyn[0][0]
            for d in iv.defs.get(0, []):
                if d[0] == 'stmt' and 'use' in d[3] and 'const' in d[3]['use']:
                    v = d[3]['use']['const'].get('int')
                    if v == 1 and not iv.dominates(db, d[1]):
                        okk = False
                    if v == 0 and d[1] in iv.reachable(db):
                        okk = False
                else:
                    okk = False
        if okk:
            run.ok('C12-S2', 'invalidate_cache', 'returns true exactly on the path that ran the callback registered under the name')
        else:
            run.bad('C12-S2', 'invalidate_cache/result', 'invalidate_cache(name) must run the callback registered under `name` and return true exactly then', site=iv.name)
    return n


REG_MUTATORS = ('insert', 'remove', 'clear', 'retain', 'drain', 'remove_entry', 'entry', 'extend', 'get_mut', 'values_mut', 'iter_mut')


def check_registry_in_place(run, ctx, rule, prefixes, floor):
    """every modification of a registry table is made in place on the table obtained from its write lock: a copy that is
    modified and written back (clone under the read lock, insert, swap under the write lock) loses the registrations other
    threads made in between; so does assigning a whole table through the write guard"""
    n = 0
    for b in sorted(ctx.core.bodies.values(), key=lambda x: x.id):
        if not b.name.startswith(prefixes):
            continue
        ex = Expr(b)
        for bi, t in b.calls():
            cn = callee_name(t)
            if (cn.startswith(N.HM) or cn.startswith(N.HASHSET + '::')) and cn.rsplit('::', 1)[-1] in REG_MUTATORS:
                rec = ex.operand(t['args'][0])
                # only tables of the registry (reached through a lock or cloned from one); local scratch sets are not tables
                cs = [c[1] for c in calls_in(rec)]
                locked = [c for c in cs if c in ('lock_api::rwlock::RwLock::read', 'lock_api::rwlock::RwLock::write', 'lock_api::mutex::Mutex::lock')]
                if not locked:
                    continue
                n += 1
                short = b.name.rsplit('::', 1)[-1]
                if 'lock_api::rwlock::RwLock::write' in locked and not any(c.endswith('Clone::clone') and i < cs.index('lock_api::rwlock::RwLock::write') for i, c in enumerate(cs)):
                    run.ok(rule, '%s/%s/bb%d' % (short, cn.rsplit('::', 1)[-1], bi), 'in place under the write lock')
                else:
                    run.bad(rule, '%s/modifies-a-copy' % short, '%s calls %s on a copy of a registry table (%s) instead of the table behind its write lock: entries registered by other threads '
                            'between the copy and the write-back are lost' % (b.name, cn.rsplit('::', 1)[-1], show(rec)[:160]), site='%s (%s)' % (b.name, b.loc(bi)),
                            oracle='tables are modified in place under their write lock')
        for bi, bl in enumerate(b.blocks):
            if bl['cleanup']:
                continue
            for st in bl['stmts']:
                if st['k'] == 'assign' and (st['dst'].get('proj') or [None])[0] == 'deref' and len(st['dst']['proj']) == 1:
                    src = ex.operand({'copy': {'l': st['dst']['l']}})
                    if any(c[1] == 'lock_api::rwlock::RwLock::write' for c in calls_in(src)):
                        n += 1
                        run.bad(rule, '%s/replaces-the-table' % b.name.rsplit('::', 1)[-1], '%s assigns a whole new table through the write guard (%s): whatever other threads registered since the '
                                'new table was computed is lost' % (b.name, b.loc(bi)), site='%s (%s)' % (b.name, b.loc(bi)), oracle='tables are modified in place under their write lock')
    run.require(rule, 'registry table modifications', n, floor)
    return n


def check_registry_routing(run, ctx):
    """C13-S1: invalidate_with routes the predicate to the named cache only; invalidate_all_with gives each cache its own name"""
    n = 0
    iw = ctx.core_fn(REG + 'invalidate_with')
    n += 1
    if iw is None:
        run.bad('C13-S1', 'invalidate_with/fail-closed', 'fail-closed: invalidate_with not found')
    else:
        ex = Expr(iw)
        dyn = [(b, t) for b, t in iw.calls() if ctx.prog.dyn_call_kind(iw, t) == 'check']
        gets = [(b, t) for b, t in iw.calls() if callee_name(t) == N.HM + 'get']
        iters = [t for b, t in iw.calls() if callee_name(t) in (N.HM + 'iter', N.HM + 'values')]
        okk = len(dyn) == 1 and len(gets) == 1 and not iters
        if okk:
            okk = _lock_field(ex.operand(gets[0][1]['args'][0]))[0] == 'invalidation_check_callbacks' and ex.operand(gets[0][1]['args'][1]) == ('param', 2)
            arg = ex.operand(dyn[0][1]['args'][1])
            okk = okk and any(x == ('param', 3) for x in walk(arg))
            okk = okk and any(c[1] == N.HM + 'get' for c in calls_in(ex.operand(dyn[0][1]['args'][0])))
        if okk:
            run.ok('C13-S1', 'invalidate_with', 'the predicate goes to the callback looked up under the given name, and to no other')
        else:
            run.bad('C13-S1', 'invalidate_with/routing', 'invalidate_with(name, p) must call exactly the callback registered under `name` with `p`', site=iw.name,
                    oracle='caches that are not named keep every entry')
    ia = ctx.core_fn(REG + 'invalidate_all_with')
    n += 1
    if ia is None:
        run.bad('C13-S1', 'invalidate_all_with/fail-closed', 'fail-closed: invalidate_all_with not found')
    else:
        ex = Expr(ia)
        dyn = [(b, t) for b, t in ia.calls() if ctx.prog.dyn_call_kind(ia, t) == 'check']
        okk = len(dyn) == 1
        why = ''
        if okk:
            db, dt = dyn[0]
            arg = ex.operand(dt['args'][1])
            cls = [x for x in walk(arg) if x[0] == 'agg' and x[1].startswith('closure:')]
            obj = ex.operand(dt['args'][0])
            # callee object and captured name come from the same iteration element
            oroot = [c for c in calls_in(obj) if c[1].endswith('Iterator::next')]
            if len(cls) != 1 or not oroot:
                okk = False
                why = 'no per-cache closure'
            else:
                caps = cls[0][2]
                name_cap = [c for c in caps if any(cc[1].endswith('Iterator::next') and cc[3] == oroot[0][3] for cc in calls_in(c))]
                pred_cap = [c for c in caps if c == ('param', 2)]
                if not name_cap or not pred_cap:
                    okk = False
                    why = 'the closure does not capture the iteration\'s own cache name and the predicate'
                else:
                    # element .0 is the name, .1 the callback
                    nroot, nn = field_path(strip_casts(name_cap[0][2][0]) if name_cap[0][0] == 'call' and name_cap[0][1] == N.CLONE else strip_casts(name_cap[0]))
                    croot, cn_ = field_path(strip_casts(obj))
                    if nn[-1:] != ['0'] or cn_[-1:] != ['1']:
                        okk = False
                        why = 'name/callback taken from fields %s/%s of the map entry' % (nn[-1:], cn_[-1:])
                    cid = cls[0][1].split(':', 1)[1]
                    cb = ctx.prog.bodies.get(cid)
                    if cb is not None and okk:
                        cex = Expr(cb)
                        pc = [(b, t) for b, t in cb.calls() if callee_name(t).startswith('core::ops::function::Fn')]
                        if len(pc) != 1:
                            okk = False
                            why = 'closure does not call the predicate exactly once'
                        else:
                            a = cex.operand(pc[0][1]['args'][1])
                            # (name, key): first from capture, second the closure's parameter
                            if not (a[0] == 'agg' and len(a[2]) == 2 and a[2][1] == ('param', 2)):
                                okk = False
                                why = 'predicate not applied to (cache name, key)'
                            rets = [cex._def(d, 0) for d in cb.defs.get(0, [])]
                            if not all(r[0] == 'call' and r[3] == pc[0][0] for r in rets):
                                okk = False
                                why = 'closure does not return the predicate\'s verdict unchanged'
        if okk:
            run.ok('C13-S1', 'invalidate_all_with', 'each callback receives a closure applying the predicate to that cache\'s own name')
        else:
            run.bad('C13-S1', 'invalidate_all_with/routing', 'invalidate_all_with(p) must pass each registered callback `|key| p(<that cache\'s name>, key)` (%s)' % why, site=ia.name,
                    oracle='per cache name predicate')
    return n


# ------------------------------------------------------------------------------------------------
REVIEWED_KEY_TYPES = ['u8', 'u16', 'u32', 'u64', 'u128', 'usize', 'i8', 'i16', 'i32', 'i64', 'i128', 'isize', 'f32', 'f64', 'bool', 'char',
                      'alloc::string::String', '&str', '(T1,)', '(T1, T2)', '(T1, T2, T3)', '(T1, T2, T3, T4)', '(T1, T2, T3, T4, T5)',
                      'core::option::Option<T>', 'alloc::vec::Vec<T>', '&[T]']


def check_key_traits(run, ctx):
    """C02-T1 default key = Debug rendering; C02-T2 reviewed impl table (informational)"""
    n = 0
    body = None
    for b in ctx.core.bodies.values():
        if b.js.get('impl_trait') == 'cachelito_core::keys::CacheableKey' and b.kind == 'assoc_fn':
            body = b
    n += 1
    if body is None:
        run.bad('C02-T1', 'blanket-impl/fail-closed', 'fail-closed: blanket impl of CacheableKey not found')
    else:
        ex = Expr(body)
        tmpl_problem = None
        fmts = [t for b, t in body.calls() if callee_name(t).startswith('core::fmt::rt::Argument::new_')]
        okk = len(fmts) == 1 and callee_name(fmts[0]) == 'core::fmt::rt::Argument::new_debug'
        if okk:
            a = ex.operand(fmts[0]['args'][0])
            okk = a == ('param', 1)
            rets = [ex._def(d, 0) for d in body.defs.get(0, [])]

            def _is_plain_format(r):
                r = strip_casts(r)
                if r[0] == 'call' and r[1] == 'core::hint::must_use' and r[2]:
                    r = strip_casts(r[2][0])
                return r[0] == 'call' and r[1] == 'alloc::fmt::format'
            okk = okk and bool(rets) and all(_is_plain_format(r) for r in rets)
            from .fmt_template import template_of, lossy
            for r in rets:
                tpl = template_of(r)
                phs = [x[1] for x in (tpl or []) if x[0] == 'ph']
                if tpl is None or len(phs) != 1 or phs[0]['arg'] not in (None, 0):
                    tmpl_problem = 'the format template of the default key could not be read as one placeholder'
                elif lossy(phs[0]):
                    tmpl_problem = 'the default key is rendered with a lossy format spec: ' + lossy(phs[0])
        if okk and tmpl_problem:
            run.bad('C02-T1', 'blanket-impl/lossy-format', tmpl_problem, site=body.name, oracle='format!("{:?}", self) with default options')
        elif okk and body.impl_self == 'T':
            run.ok('C02-T1', 'blanket-impl', 'to_cache_key = format!("{:?}", self)')
        else:
            run.bad('C02-T1', 'blanket-impl/not-debug', 'the default cache key must be exactly the Debug rendering of the value (self-delimiting for strings and chars)', site=body.name,
                    oracle='format!("{:?}", self)')
    direct = sorted(i['self_ty'] for i in ctx.core.impls if i['trait'] == 'cachelito_core::keys::CacheableKey')
    n += 1
    if direct == ['T']:
        run.ok('C02-T3', 'only-the-blanket-impl', 'every built-in key is rendered by the blanket impl (Debug)')
    else:
        for d in direct:
            if d != 'T':
                run.bad('C02-T3', 'custom-rendering/%s' % d, 'cachelito-core implements CacheableKey for %s directly: its key is no longer the Debug rendering, so the self-delimiting grammar '
                        'argument (quotes, brackets, escapes) behind "distinct arguments never share a key" does not cover it' % d, site='cachelito_core::keys',
                        oracle='built-in keys are Debug renderings (DefaultCacheableKey + blanket impl)')
    impls = sorted(i['self_ty'] for i in ctx.core.impls if i['trait'] == 'cachelito_core::keys::DefaultCacheableKey')
    extra = [i for i in impls if i not in REVIEWED_KEY_TYPES]
    missing = [i for i in REVIEWED_KEY_TYPES if i not in impls]
    n += 1
    run.ok('C02-T2', 'impl-table', '%d DefaultCacheableKey impls; unreviewed: %s; reviewed but absent: %s' % (len(impls), extra or 'none', missing or 'none'), trivial=True)
    for x in extra:
        run.note('unreviewed key type: %s (its Debug must be self-delimiting for C02 to hold)' % x)
    return n


def check_scope_types(run, ctx):
    """C14-T1: thread scope can only be built on thread-local keys, global scope on process statics"""
    adts = ctx.core.adts
    n = 0
    want = {
        N.THREAD: {'cache': ('std::thread::local::LocalKey<core::cell::RefCell<', N.HASHMAP), 'order': ('std::thread::local::LocalKey<core::cell::RefCell<', N.VECDEQUE)},
        N.GLOBAL: {'map': ('once_cell::sync::Lazy<lock_api::rwlock::RwLock<', N.HASHMAP), 'order': ('once_cell::sync::Lazy<lock_api::mutex::Mutex<', N.VECDEQUE)},
    }
    for adt, flds in want.items():
        a = adts.get(adt)
        if a is None:
            run.bad('C14-T1', adt + '/fail-closed', 'fail-closed: %s not found' % adt)
            continue
        fmap = {f['name']: f['ty'] for f in a['variants'][0]['fields']}
        for fname, (prefix, inner) in flds.items():
            n += 1
            ty = fmap.get(fname, '')
            body_ty = ty.split(' ', 1)[1] if ty.startswith("&'static ") else ty.lstrip('&')
            if ty.startswith("&'static ") and body_ty.startswith(prefix) and inner in body_ty:
                run.ok('C14-T1', '%s.%s' % (adt.rsplit('::', 1)[-1], fname), ty[:120])
            else:
                run.bad('C14-T1', '%s.%s/type' % (adt.rsplit('::', 1)[-1], fname), 'field %s of %s has type %s: %s storage is no longer guaranteed by the type' % (
                    fname, adt, ty, 'per-thread' if adt == N.THREAD else 'process-wide'), site=adt, oracle="&'static %s..." % prefix)
    return n


def check_order_preserving(run, ctx, rule='C07-S2', generated=True):
    """the order queue is only ever changed by push at the store end, pop at the victim end, positional removal and
    retain: swap_remove / rotate / insert-at would silently change the recency / insertion order of the survivors"""
    from .effects import Q_REORDERING, Effects
    eff = Effects(ctx.prog)
    n = 0
    for body in ctx.prog.bodies.values():
        if body.crate is not ctx.core and not (generated and ctx.role(body)):
            continue
        for (b, k, t) in eff.prim(body):
            if k.startswith('Q'):
                n += 1
                if k in Q_REORDERING:
                    run.bad(rule, '%s/%s' % (ctx.label(body), callee_name(t).rsplit('::', 1)[-1]), '%s changes the order queue with %s at %s: the relative order of the remaining keys '
                            '(insertion / recency order that FIFO, LRU, ARC and TLRU evict by) is no longer what it would be had the removed key never been stored'
                            % (body.name, callee_name(t).rsplit('::', 1)[-1], body.loc(b)), site='%s (%s)' % (body.name, body.loc(b)), oracle='queue removals preserve the order of the survivors')
    run.ok(rule, 'queue-operations', '%d order-queue operations in the core and in generated code, none reorders the survivors' % n)
    return n


# ------------------------------------------------------------------------------------------------
def _through_upvar(prog, body, e, depth=0):
    """rewrite a captured-variable expression of a closure into the expression captured in its parent"""
    e = strip_casts(e)
    while e[0] == 'call' and e[1] == N.CLONE and e[2]:
        e = strip_casts(e[2][0])
    if depth > 4:
        return body, e
    if body.kind == 'closure' and e[0] == 'field' and e[1] == ('param', 1) and str(e[3]).startswith('closure:'):
        par, ops = prog.closure_capture_operands(body)
        k = int(e[2])
        if ops is not None and k < len(ops):
            pe = Expr(par).operand(ops[k])
            return _through_upvar(prog, par, pe, depth + 1)
    return body, e


def check_victim_key_identity(run, ctx, rule='C04-P5'):
    """the key removed from the store for a victim is the key removed from the queue"""
    from . import rules_core as K
    from .spec import SpecEffects
    C = K.Core(ctx)
    prog = ctx.prog
    se = SpecEffects(prog, {})
    n = 0
    roots = []
    for flav, adt in K.FLAVOURS:
        for f in (C.eviction_fn(adt), C.method(adt, 'insert_with_memory')):
            if f is not None:
                roots.append((flav, f))
    for flav, fn in roots:
        own = None
        for i in range(1, fn.arg_count + 1):
            if fn.local_ty(i) == '&str':
                own = (fn.id, i)
        for body in C.scope(fn):
            ex = Expr(body)
            for b, t in body.calls():
                if classify(t) != 'S-':
                    continue
                if own is not None and se.key_root(body, t['args'][1]) == own:
                    continue  # the operation's own key (oversize take-back / replacement)
                n += 1
                hb, key = _through_upvar(prog, body, ex.operand(t['args'][1]))
                root, names = field_path(key)
                okk = False
                why = ''
                if root[0] == 'call' and classify_name(root) in ('Q-front', 'Q-at', 'Q-back') and names[:2] == ['as:Some', '0']:
                    okk, why = True, 'the key popped / removed from the queue'
                else:
                    # a retain(!= key) or position(== key)+remove on the queue with the same key, in the home body of the key
                    hex_ = Expr(hb)
                    for b2, t2 in hb.calls():
                        k2 = classify(t2)
                        if k2 == 'Q-key':
                            for cid in t2['callee'].get('closures', []):
                                cb = prog.bodies.get(cid)
                                par, ops = prog.closure_capture_operands(cb) if cb else (None, None)
                                if ops and any(_through_upvar(prog, hb, hex_.operand(o))[1] == key for o in ops):
                                    okk, why = True, 'retain(!= the same key) on the queue'
                        if k2 == 'Q-at':
                            pos = hex_.operand(t2['args'][1])
                            pr, pn = field_path(strip_casts(pos))
                            if pr[0] == 'call' and pr[1] == POSITION:
                                for cid in pr[4].get('closures', []):
                                    cb = prog.bodies.get(cid)
                                    par, ops = prog.closure_capture_operands(cb) if cb else (None, None)
                                    if ops and any(_through_upvar(prog, hb, hex_.operand(o))[1] == key for o in ops):
                                        okk, why = True, 'position(== the same key) + remove on the queue'
                label = '%s/%s' % (flav, body.name)
                if okk:
                    run.ok(rule, '%s/bb%d' % (label, b), 'store victim is %s' % why)
                else:
                    run.bad(rule, label + '/victim-key-mismatch', 'the key removed from the store in %s (%s) is not the key that is removed from the order queue: one entry is evicted '
                            'while another key loses its queue slot' % (body.name, show(key)), site='%s (%s)' % (body.name, body.loc(b)),
                            oracle='victim removed from store and queue under the same key')
    # shared helpers: every core function outside the cache types that removes from a store map and from a queue must do
    # both under its own key parameter; functions that merely forward to such a helper must forward the key unchanged
    helpers = []
    for f in ctx.core.bodies.values():
        if f.kind != 'fn':
            continue
        kinds = {classify(t) for b, t in f.calls()}
        if 'S-' in kinds and (kinds & {'Q-at', 'Q-key'}):
            helpers.append(f)
    for rm in helpers:
        n += 1
        ex = Expr(rm)
        sm = [(b, t) for b, t in rm.calls() if classify(t) == 'S-']
        qa = [(b, t) for b, t in rm.calls() if classify(t) in ('Q-at', 'Q-key')]
        okk = len(sm) == 1 and len(qa) == 1
        kp = ex.operand(sm[0][1]['args'][1]) if okk else None
        okk = okk and kp[0] == 'param'
        if okk:
            t2 = qa[0][1]
            if classify(t2) == 'Q-at':
                pr, pn = field_path(strip_casts(ex.operand(t2['args'][1])))
                cl = pr[4].get('closures', []) if pr[0] == 'call' and pr[1] == POSITION else []
            else:
                cl = t2['callee'].get('closures', [])
            okk = False
            for cid in cl:
                cb = prog.bodies.get(cid)
                par, ops = prog.closure_capture_operands(cb) if cb else (None, None)
                if ops and any(ex.operand(o) == kp for o in ops):
                    okk = True
        short = rm.name.rsplit('::', 1)[-1]
        if okk:
            run.ok(rule, 'helper/' + short, 'removes its key parameter from the map and from the queue')
            for f in ctx.core.bodies.values():
                if f.kind != 'fn' or f.id == rm.id:
                    continue
                cs = [(b, t) for b, t in f.calls() if any(cb.id == rm.id for cb in prog.lookup(t))]
                if len(cs) == 1:
                    n += 1
                    fe = Expr(f)
                    passed = fe.operand(cs[0][1]['args'][kp[1] - 1])
                    if passed[0] == 'param':
                        run.ok(rule, 'helper/' + f.name.rsplit('::', 1)[-1], 'forwards its key parameter unchanged to %s' % short)
                    else:
                        run.bad(rule, 'helper/%s/key-not-passed' % f.name.rsplit('::', 1)[-1], '%s does not pass a key parameter unchanged to %s' % (f.name, short), site=f.name)
        else:
            run.bad(rule, 'helper/%s/key-mismatch' % short, '%s must remove one and the same key parameter from the map and from the queue' % rm.name, site=rm.name)
    run.require(rule, 'victim removals judged', n, 6)
    return n


def classify_name(call_expr):
    """effect kind of a ('call', name, args, block, extra) expression"""
    from .effects import QUEUE_VD, is_queue_ty
    cn = call_expr[1]
    if cn.startswith(N.VD):
        m = cn[len(N.VD):]
        st = (call_expr[4] or {}).get('self_ty') or ''
        if m in QUEUE_VD and is_queue_ty(parse(st)):
            return QUEUE_VD[m]
    return None


def check_positional_removals(run, ctx, rule='C04-P6'):
    """`queue.remove(i)` removes what sits at position i *counted from the front*.  The index must therefore come from a
    forward search of that same queue for a key (`queue.iter().position(|k| k == key)`) or be a random position below its
    length: an index obtained from a reversed / partial / sorted-order search (`iter().rev()`, `as_slices().0`,
    `binary_search`) designates another element - a foreign key loses its slot and the searched key keeps its own"""
    n = 0
    POSITION = 'core::iter::traits::iterator::Iterator::position'
    for crate in (ctx.core, ctx.fx_sync, ctx.fx_async):
        for body in crate.bodies.values():
            if crate is not ctx.core and ctx.role(body) is None:
                continue
            ex = None
            for bi, t in body.calls():
                if callee_name(t) != N.VD + 'remove':
                    continue
                ex = ex or Expr(body)
                n += 1
                q = ex.operand(t['args'][0])
                idx = strip_casts(ex.operand(t['args'][1]))
                why = None
                if idx[0] == 'call' and idx[1].startswith('fastrand::'):
                    pass  # judged by C04-K2
                else:
                    root, names = field_path(idx)
                    if names[-2:] == ['as:Some', '0'] and root[0] == 'call' and root[1] == POSITION:
                        src = strip_casts(root[2][0])
                        if not (src[0] == 'call' and src[1] == N.VD + 'iter' and src[2] and src[2][0] == q):
                            why = 'the search does not run over `%s.iter()` from the front (it runs over %s)' % (show(q)[:40], show(src)[:80])
                        else:
                            # the predicate is an equality test
                            cids = (root[4] or {}).get('closures') or []
                            okp = False
                            for cid in cids:
                                cb = ctx.prog.bodies.get(cid)
                                if cb is not None and any(callee_name(t2) == N.PARTIAL_EQ for _, t2 in cb.calls()) and not any(callee_name(t2) == N.PARTIAL_NE for _, t2 in cb.calls()):
                                    okp = True
                            if not okp:
                                why = 'the search predicate is not an equality test with the key'
                    else:
                        why = 'the index is %s, not the result of `iter().position(|k| k == key)` on the same queue' % show(idx)[:100]
                if why:
                    run.bad(rule, '%s/index-not-from-forward-search' % ctx.label(body), '%s removes a queue element by position, but %s (%s): the element removed is not the key that was '
                            'searched for' % (body.name, why, body.loc(bi)), site='%s (%s)' % (body.name, body.loc(bi)), oracle='order.iter().position(|k| k == key) -> order.remove(pos)')
                else:
                    run.ok(rule, '%s/bb%d' % (ctx.label(body), bi), 'index from a forward equality search of the same queue (or a random position)')
    run.require(rule, 'positional queue removals', n, 8)
    return n


def check_registry_counts(run, ctx, rule='C12-S4'):
    """the invalidation functions return how many caches they invalidated: the counter they return starts at 0 and
    moves in steps of 1"""
    n = 0
    for body in sorted(ctx.core.bodies.values(), key=lambda b: b.id):
        if not body.name.startswith(REG) or body.kind != 'assoc_fn' or body.local_ty(0) != 'usize':
            continue
        ex = Expr(body)
        adds = []
        for bi, bl in enumerate(body.blocks):
            if bl['cleanup']:
                continue
            for st in bl['stmts']:
                if st['k'] == 'assign' and st['rv'].get('bin') in ('AddWithOverflow', 'Add'):
                    adds.append((bi, st))
        if not adds:
            continue
        n += 1
        probs = []
        accs = set()
        for bi, st in adds:
            b_ = ex.operand(st['rv']['b'])
            if not (b_[0] == 'const' and b_[1] == 1):
                probs.append('a step of %s (%s)' % (show(b_), body.loc(bi)))
            pa = st['rv']['a'].get('copy') or st['rv']['a'].get('move')
            if pa is not None and not pa.get('proj'):
                accs.add(pa['l'])
        for l in accs:
            for d in body.defs.get(l, []):
                if d[0] == 'stmt' and 'use' in d[3] and 'const' in d[3]['use']:
                    v = d[3]['use']['const'].get('int')
                    if v != 0:
                        probs.append('a start value of %s' % v)
        short = body.name.rsplit('::', 1)[-1]
        if probs:
            run.bad(rule, '%s/count-form' % short, '%s returns a count that has %s: it must report exactly how many caches were invalidated' % (body.name, '; '.join(probs)),
                    site=body.name, oracle='count starts at 0, +1 per cache')
        else:
            run.ok(rule, short, 'count starts at 0 and moves in steps of 1')
    run.require(rule, 'counting registry functions', n, 2)
    return n
