"""Configuration specialiser (engine E): path-sensitive exploration of a body under an assumption
about the cache's configuration fields (policy variant, limit/max_memory/ttl presence) and,
optionally, *oracles* fixing the outcome of designated tests (store lookup found?, expiry test?).

The abstract state maps bool / Option / Result locals (and captured flags of closures) to small
integers (bool value, variant index), so that flag locals (`expired`, `result.is_some()`,
`evicted`, `removed`) correlate the branches they guard.  Closures run synchronously by a callee
(`LocalKey::with`, iterator adapters...) are summarised by their *outcomes* (returned variant,
values written to captured flags) and the caller forks on them."""
from collections import deque, defaultdict
from .facts import callee_name
from .types import parse, strip_refs
from .program import STORES_CLOSURE
from . import names as N

CONFIG_FIELDS = ('policy', 'limit', 'max_memory', 'ttl', 'frequency_weight')

IS_SOME = 'core::option::Option::is_some'
IS_NONE = 'core::option::Option::is_none'
IS_OK = 'core::result::Result::is_ok'
IS_ERR = 'core::result::Result::is_err'
RETURNS_CLOSURE_RESULT = ('std::thread::local::LocalKey::with', 'std::thread::local::LocalKey::try_with')
# Option combinators: the closure runs only when the receiver is Some; the call's value is the closure's (or the default)
OPTION_COMBINATORS = {'core::option::Option::map_or': 'default-arg1', 'core::option::Option::is_some_and': 'default-0',
                      'core::option::Option::is_none_or': 'default-1'}


def config_field_of(place):
    """'policy' etc. when the place denotes <cache>.field itself (possibly through captured self)"""
    proj = place.get('proj') or []
    idx = None
    for i, e in enumerate(proj):
        if isinstance(e, dict) and 'f' in e and e.get('on') in N.CACHE_ADTS and e['name'] in CONFIG_FIELDS:
            idx = i
    if idx is None:
        return None
    if all(e == 'deref' for e in proj[idx + 1:]):
        return proj[idx]['name']
    return None


def config_payload_of(place):
    """'limit' etc. when the place denotes the payload `(<cache>.field as Some).0`"""
    proj = place.get('proj') or []
    for i, e in enumerate(proj):
        if isinstance(e, dict) and 'f' in e and e.get('on') in N.CACHE_ADTS and e['name'] in CONFIG_FIELDS:
            rest = [x for x in proj[i + 1:] if x != 'deref']
            if len(rest) == 2 and isinstance(rest[0], dict) and rest[0].get('dc') == 'Some' and isinstance(rest[1], dict) and rest[1].get('f') == 0:
                return e['name']
    return None


def _tracked_ty(ty):
    if ty == 'bool':
        return True
    t = parse(ty)
    return t.kind == 'adt' and t.name in (N.OPTION, N.RESULT)


def upvar_index(body, place):
    """k if place is the captured variable `(*(_1.k))` / `(_1.k)` of a closure, else None"""
    if body.kind not in ('closure', 'coroutine') or place.get('l') != 1:
        return None
    proj = [e for e in (place.get('proj') or []) if e != 'deref']
    if len(proj) == 1 and isinstance(proj[0], dict) and 'f' in proj[0] and str(proj[0].get('on', '')).startswith(('closure:', 'coroutine:')):
        return proj[0]['f']
    return None


class Spec:
    def __init__(self, prog, body, fields, upvar_env=None, oracles=None, max_states=20000, _depth=0, weigher=None):
        """fields: dict over CONFIG_FIELDS -> int (policy: variant index; others 0=None, 1=Some);
        missing keys are unknown.  oracles: {(body id, block): value} fixing the value a call at that
        block returns, or {(body id, block, stmt index): value} fixing an assigned comparison."""
        self.prog = prog
        self.body = body
        self.fields = dict(fields)
        self.upvar_env = dict(upvar_env or {})
        self.oracles = oracles or {}
        self.tracked = {i for i, l in enumerate(body.locals) if _tracked_ty(l['ty'])}
        self.max_states = max_states
        self.depth = _depth
        self.weigher = weigher  # object with .dims and .weight(body, block) -> tuple
        self.edge_w = defaultdict(set)  # (node, node2) -> set of extra weight vectors (closure outcomes)
        self.nodes = {}
        self.edges = defaultdict(set)
        self.entry = None
        self.truncated = False
        self._out_memo = {}
        self.precise_blocks = set()  # call blocks whose directly called local function is accounted for by per-outcome edge weights
        self._explore()

    # ---- evaluation -------------------------------------------------------------------------
    def _single_def(self, l):
        d = self.body.defs.get(l, [])
        return d[0] if len(d) == 1 else None

    def eval_place(self, place, env, depth=0):
        """small-int value (bool / variant index) of a place, or None"""
        f = config_field_of(place)
        if f is not None:
            return self.fields.get(f)
        uv = upvar_index(self.body, place)
        if uv is not None:
            return env.get(('uv', uv))
        if not place.get('proj'):
            return self.eval_local(place['l'], env, depth)
        if all(e == 'deref' for e in place['proj']):
            # *ref : value of the referent
            return self._deref_local(place['l'], env, depth)
        return None

    def _deref_local(self, l, env, depth):
        d = self._single_def(l)
        if d is not None and d[0] == 'stmt':
            rv = d[3]
            if 'ref' in rv:
                return self.eval_place(rv['ref'], env, depth + 1)
            if 'use' in rv:
                p = rv['use'].get('copy') or rv['use'].get('move')
                if p is not None:
                    if not p.get('proj'):
                        return self._deref_local(p['l'], env, depth + 1)
                    return self.eval_place(p, env, depth + 1)
        return None

    def eval_local(self, l, env, depth=0):
        if l in env:
            return env[l]
        if depth > 16:
            return None
        if len(self.body.defs.get(l, [])) != 1:
            return None
        return self.eval_def(self._single_def(l), env, depth + 1)

    def eval_operand(self, o, env, depth=0):
        if 'const' in o:
            return o['const'].get('int')
        p = o.get('copy') or o.get('move')
        if p is None:
            return None
        return self.eval_place(p, env, depth)

    def eval_def(self, d, env, depth):
        if d is None:
            return None
        if d[0] == 'stmt':
            key = (self.body.id, d[1], d[2])
            if key in self.oracles:
                return self.oracles[key]
            return self.eval_rvalue(d[3], env, depth)
        if d[0] == 'call':
            key = (self.body.id, d[1])
            if key in self.oracles:
                return self.oracles[key]
            return self.eval_call(d[2], env, depth)
        return None

    def eval_rvalue(self, rv, env, depth=0):
        if 'use' in rv:
            return self.eval_operand(rv['use'], env, depth)
        if 'discr' in rv:
            return self.eval_place(rv['discr'], env, depth)
        if 'un' in rv and rv['un'] == 'Not':
            v = self.eval_operand(rv['a'], env, depth)
            return None if v is None else (0 if v else 1)
        if 'bin' in rv and rv['bin'] in ('Eq', 'Ne'):
            a = self.eval_operand(rv['a'], env, depth)
            b = self.eval_operand(rv['b'], env, depth)
            if a is None or b is None:
                return None
            r = 1 if a == b else 0
            return r if rv['bin'] == 'Eq' else 1 - r
        if 'agg' in rv and isinstance(rv['agg'], dict) and 'vi' in rv['agg']:
            return rv['agg']['vi']
        if 'cast' in rv:
            return self.eval_operand(rv['cast'], env, depth)
        return None

    def _referent(self, o, env, depth):
        """value of what a reference-typed operand points to"""
        if 'const' in o:
            return o['const'].get('int')
        p = o.get('copy') or o.get('move')
        if p is None:
            return None
        if p.get('proj'):
            return self.eval_place(p, env, depth)
        return self._deref_local(p['l'], env, depth)

    def eval_call(self, t, env, depth=0):
        cn = callee_name(t)
        args = t['args']
        if cn in (IS_SOME, IS_NONE, IS_OK, IS_ERR) and args:
            v = self._referent(args[0], env, depth)
            if v is None:
                return None
            if cn == IS_SOME:
                return 1 if v == 1 else 0
            if cn == IS_NONE:
                return 1 if v == 0 else 0
            if cn == IS_OK:
                return 1 if v == 0 else 0
            return 1 if v == 1 else 0
        if cn in (N.PARTIAL_EQ, N.PARTIAL_NE) and len(args) == 2:
            st = t['callee'].get('self_ty') or ''
            if strip_refs(parse(st)).text in (N.POLICY, N.SCOPE):
                a = self._referent(args[0], env, depth)
                b = self._referent(args[1], env, depth)
                if a is None or b is None:
                    return None
                r = 1 if a == b else 0
                return r if cn == N.PARTIAL_EQ else 1 - r
        cr = self._const_return(t)
        if cr is not None:
            return cr
        if cn == 'cachelito_core::cache_entry::CacheEntry::is_expired' and len(args) == 2:
            # is_expired(None) is false (that shape is what C06-K1 verifies)
            if self.fields.get('ttl') == 0 and self._operand_is_config(args[1], 'ttl'):
                return 0
        return None

    def _const_return(self, t):
        """value of a call to a local bool function that returns one constant on every path that is
        feasible under the current configuration assumption"""
        cache = self.prog.__dict__.setdefault('_const_ret', {})
        for cb in self.prog.lookup(t):
            if cb.kind not in ('fn', 'assoc_fn') or cb.local_ty(0) != 'bool' or self.depth > 3:
                return None
            key = (cb.id, tuple(sorted(self.fields.items())), tuple(sorted((k, v) for k, v in self.oracles.items() if k[0] == cb.id)))
            if key not in cache:
                cache[key] = None  # recursion guard
                sub = Spec(self.prog, cb, self.fields, oracles=self.oracles, _depth=self.depth + 1)
                vals = {sub.return_value(n) for n in sub.return_nodes()}
                cache[key] = vals.pop() if (len(vals) == 1 and not sub.truncated) else None
            return cache[key]
        return None

    def _operand_is_config(self, o, name, depth=0):
        p = o.get('copy') or o.get('move')
        if p is None or depth > 6:
            return False
        if config_field_of(p) == name:
            return True
        if not p.get('proj'):
            d = self._single_def(p['l'])
            if d is not None and d[0] == 'stmt' and 'use' in d[3]:
                return self._operand_is_config(d[3]['use'], name, depth + 1)
        return False

    # ---- closures ---------------------------------------------------------------------------
    def _sync_closures(self, t):
        if callee_name(t) in STORES_CLOSURE:
            return []
        if self.weigher is not None and not getattr(self.weigher, 'descend', True):
            return []  # wrappers: user closures / futures are opaque
        return [c for c in self.prog.closures_passed(t) if c.kind == 'closure']

    def _closure_outcomes(self, t, env):
        """[(ret value|None, {captured tracked local: value|None})] or None when no closure is involved"""
        cbs = self._sync_closures(t)
        if not cbs or self.depth > 4:
            return None
        results = None
        for cb in cbs:
            par, ops = self.prog.closure_capture_operands(cb)
            if ops is None or par is not self.body:
                continue
            capmap = {}  # upvar index -> (parent local, mutable?)
            uenv = {}
            for i, o in enumerate(ops):
                p = o.get('move') or o.get('copy')
                if p is None or p.get('proj'):
                    continue
                d = self._single_def(p['l'])
                if d is not None and d[0] == 'stmt' and 'ref' in d[3] and not d[3]['ref'].get('proj'):
                    tl = d[3]['ref']['l']
                    if tl in self.tracked:
                        capmap[i] = (tl, bool(d[3].get('mut')))
                        if tl in env:
                            uenv[i] = env[tl]
                elif p['l'] in self.tracked and p['l'] in env:
                    uenv[i] = env[p['l']]
            key = (cb.id, tuple(sorted(uenv.items())))
            if key not in self._out_memo:
                sub = Spec(self.prog, cb, self.fields, upvar_env=uenv, oracles=self.oracles, _depth=self.depth + 1, weigher=self.weigher)
                self._out_memo[key] = sub.outcomes()
            outs = []
            cn_ = callee_name(t)
            returns = cn_ in RETURNS_CLOSURE_RESULT
            comb = OPTION_COMBINATORS.get(cn_)
            if comb is not None and t['args']:
                recv = self.eval_operand(t['args'][0], env)
                if recv == 0:
                    # receiver is None: the closure does not run, the value is the default
                    dv = 0 if comb == 'default-0' else 1 if comb == 'default-1' else self.eval_operand(t['args'][1], env)
                    return [(dv, {}, None)]
                if recv == 1:
                    returns = True
                else:
                    returns = False
            for (ret, uvs, vec) in self._out_memo[key]:
                w = {}
                uvd = dict(uvs)
                for i, (tl, mut) in capmap.items():
                    if mut:
                        w[tl] = uvd.get(i, 'same') if i in uvd else 'same'
                outs.append((ret if returns else None, w, vec))
            if results is None:
                results = outs
            else:
                results = [(r1 if r1 is not None else r2, {**w1, **w2}, _vadd(v1, v2)) for (r1, w1, v1) in results for (r2, w2, v2) in outs]
        if results is None:
            return None
        seen = []
        for r in results:
            k = (r[0], tuple(sorted(r[1].items(), key=str)), r[2])
            if k not in [x[0] for x in seen]:
                seen.append((k, r))
        return [r for (_, r) in seen]

    def _callee_outcomes(self, b, t):
        """[(ret value|None, effect vector)] of the directly called local function of this call block, one per (return value,
        path-total) class of the callee explored under the same assumptions and oracles; None when not applicable (then the
        callee's may-summary is part of the block weight, as before)"""
        wg = self.weigher
        if wg is None or not getattr(wg, 'descend', True) or not getattr(wg, 'precise_calls', False) or self.depth > 3:
            return None
        cbs = [cb for (cb, how) in wg.se._callees(self.body, b, hows=('direct',))]
        if len(cbs) != 1 or cbs[0].kind not in ('fn', 'assoc_fn') or cbs[0].id == self.body.id:
            return None
        cb = cbs[0]
        child = wg.for_callee(self.body, b, cb)
        key = (cb.id, child.own_key)
        memo = wg._callee_out
        if key not in memo:
            memo[key] = None  # recursion guard: a cycle falls back to the may-summary
            sub = Spec(self.prog, cb, self.fields, oracles=self.oracles, _depth=self.depth + 1, weigher=child)
            if not sub.truncated:
                outs = set()
                for (ret, _uvs, vec) in sub.outcomes():
                    outs.add((ret, vec))
                memo[key] = sorted(outs, key=str) if outs else None
        return memo[key]

    def outcomes(self):
        """set of (returned small-int value|None, frozenset((upvar, value|None)...), effect vector|None)
        over return nodes and the effect totals of the paths reaching them"""
        out = set()
        totals = self.path_totals() if self.weigher is not None else None
        for n in self.return_nodes():
            env = self._apply_stmts(n[0], self.nodes[n])
            ret = env.get(0)
            uvs = frozenset((k[1], v) for k, v in env.items() if isinstance(k, tuple) and k[0] == 'uv'
                            and self.upvar_env.get(k[1], '?') != v)
            unk = frozenset((k, None) for k in env.get('unk', ()))
            if totals is None:
                out.add((ret, uvs | unk, None))
            else:
                for vec in totals[n]:
                    out.add((ret, uvs | unk, vec))
        return out

    # ---- transfer ---------------------------------------------------------------------------
    def _apply_stmts(self, b, env):
        env = dict(env)
        for i, st in enumerate(self.body.blocks[b]['stmts']):
            if st['k'] != 'assign':
                if st['k'] == 'dead':
                    env.pop(st['l'], None)
                continue
            dst = st['dst']
            uv = upvar_index(self.body, dst)
            if uv is not None:
                v = self.eval_def(('stmt', b, i, st['rv']), env, 0)
                if v is None:
                    env.pop(('uv', uv), None)
                    env['unk'] = tuple(sorted(set(env.get('unk', ())) | {uv}))
                else:
                    env[('uv', uv)] = v
                continue
            if dst.get('proj'):
                if dst['l'] in self.tracked and any(isinstance(e, dict) and 'dc' in e for e in dst['proj']):
                    pass  # writing a variant payload does not change the variant
                continue
            l = dst['l']
            if l not in self.tracked:
                continue
            v = self.eval_def(('stmt', b, i, st['rv']), env, 0)
            if v is None:
                env.pop(l, None)
            else:
                env[l] = v
        return env

    def _switch_facts(self, o, val, env, depth=0):
        """facts [(key, value)] implied by `operand == val` (for recording what a branch tells us)"""
        if depth > 8:
            return []
        p = o.get('copy') or o.get('move')
        if p is None:
            return []
        uv = upvar_index(self.body, p)
        if uv is not None:
            return [(('uv', uv), val)]
        if p.get('proj'):
            return []
        l = p['l']
        defs = self.body.defs.get(l, [])
        if len(defs) != 1:
            return [(l, val)] if l in self.tracked else []
        d = defs[0]
        facts = [(l, val)] if l in self.tracked else []
        if d[0] == 'stmt':
            rv = d[3]
            if 'discr' in rv:
                q = rv['discr']
                uv = upvar_index(self.body, q)
                if uv is not None:
                    facts.append((('uv', uv), val))
                elif not q.get('proj') and q['l'] in self.tracked:
                    facts.append((q['l'], val))
            elif 'use' in rv:
                facts += self._switch_facts(rv['use'], val, env, depth + 1)
            elif 'un' in rv and rv['un'] == 'Not' and val in (0, 1):
                facts += self._switch_facts(rv['a'], 1 - val, env, depth + 1)
        elif d[0] == 'call' and val in (0, 1):
            t = d[2]
            cn = callee_name(t)
            if cn in (IS_SOME, IS_NONE, IS_OK, IS_ERR) and t['args']:
                tl = self._referent_local(t['args'][0])
                if tl is not None:
                    if cn == IS_SOME:
                        facts.append((tl, val))
                    elif cn == IS_NONE:
                        facts.append((tl, 1 - val))
                    elif cn == IS_OK:
                        facts.append((tl, 1 - val))
                    else:
                        facts.append((tl, val))
        return facts

    def _referent_local(self, o, depth=0):
        """tracked local (or ('uv',k)) a reference operand points to"""
        p = o.get('copy') or o.get('move')
        if p is None or depth > 6:
            return None
        uv = upvar_index(self.body, p)
        if uv is not None:
            return ('uv', uv)
        if p.get('proj'):
            return None
        d = self._single_def(p['l'])
        if d is not None and d[0] == 'stmt':
            rv = d[3]
            if 'ref' in rv:
                q = rv['ref']
                uv = upvar_index(self.body, q)
                if uv is not None:
                    return ('uv', uv)
                if not q.get('proj') and q['l'] in self.tracked:
                    return q['l']
                return None
            if 'use' in rv:
                return self._referent_local(rv['use'], depth + 1)
        return None

    def _succ_states(self, b, env):
        t = self.body.term(b)
        k = t['k']
        out = []
        if k == 'switch':
            v = self.eval_operand(t['discr'], env)
            if v is not None:
                tgt = None
                for val, tb in t['targets']:
                    if val == v:
                        tgt = tb
                if tgt is None:
                    tgt = t['otherwise']
                out.append((tgt, env))
            else:
                vals = [val for val, _ in t['targets']]
                for val, tb in t['targets']:
                    e2 = dict(env)
                    for (kk, vv) in self._switch_facts(t['discr'], val, env):
                        e2[kk] = vv
                    out.append((tb, e2))
                e3 = dict(env)
                comp = None
                if set(vals) == {0}:
                    comp = 1
                elif set(vals) == {1}:
                    comp = 0
                if comp is not None:
                    for (kk, vv) in self._switch_facts(t['discr'], comp, env):
                        e3[kk] = vv
                out.append((t['otherwise'], e3))
        elif k == 'call':
            if t.get('target') is None:
                return out
            env2 = dict(env)
            dst = t['dst']
            dl = dst['l'] if not dst.get('proj') else None
            okey = (self.body.id, b)
            if dl is not None and dl in self.tracked:
                v = self.oracles[okey] if okey in self.oracles else self.eval_call(t, env, 0)
                if v is None:
                    env2.pop(dl, None)
                else:
                    env2[dl] = v
            outs = self._closure_outcomes(t, env)
            if outs is None:
                # a `&mut tracked` passed to an opaque callee: value unknown afterwards
                for a in t['args']:
                    tl = self._mut_ref_target(a)
                    if tl is not None:
                        env2.pop(tl, None)
                couts = self._callee_outcomes(b, t)
                if couts is None:
                    out.append((t['target'], env2))
                else:
                    self.precise_blocks.add(b)
                    for (ret, vec) in couts:
                        e5 = dict(env2)
                        if dl is not None and dl in self.tracked and okey not in self.oracles and ret is not None:
                            e5[dl] = ret
                        out.append((t['target'], e5, vec))
            else:
                for (ret, writes, vec) in outs:
                    e4 = dict(env2)
                    if dl is not None and dl in self.tracked and okey not in self.oracles:
                        if ret is None:
                            e4.pop(dl, None)
                        else:
                            e4[dl] = ret
                    for tl, v in writes.items():
                        if v == 'same':
                            continue
                        if v is None:
                            e4.pop(tl, None)
                        else:
                            e4[tl] = v
                    out.append((t['target'], e4, vec))
        else:
            for s in self.body.succ[b]:
                out.append((s, env))
        return out

    def _mut_ref_target(self, o):
        p = o.get('move') or o.get('copy')
        if p is None or p.get('proj'):
            return None
        d = self._single_def(p['l'])
        if d is not None and d[0] == 'stmt' and 'ref' in d[3] and d[3].get('mut') and not d[3]['ref'].get('proj'):
            tl = d[3]['ref']['l']
            if tl in self.tracked:
                return tl
        return None

    def _explore(self):
        body = self.body
        e0 = {('uv', k): v for k, v in self.upvar_env.items()}
        start = (0, _key(e0))
        self.entry = start
        self.nodes[start] = e0
        dq = deque([start])
        while dq:
            node = dq.popleft()
            b, _ = node
            if body.blocks[b]['cleanup']:
                continue
            env = self._apply_stmts(b, self.nodes[node])
            for st in self._succ_states(b, env):
                s, e2 = st[0], st[1]
                vec = st[2] if len(st) > 2 else None
                if body.blocks[s]['cleanup']:
                    continue
                e2 = {l: v for l, v in e2.items() if (l in self.tracked or not isinstance(l, int))}
                n2 = (s, _key(e2))
                self.edges[node].add(n2)
                if vec is not None:
                    self.edge_w[(node, n2)].add(vec)
                if n2 not in self.nodes:
                    if len(self.nodes) > self.max_states:
                        self.truncated = True
                        continue
                    self.nodes[n2] = e2
                    dq.append(n2)

    # ---- queries ----------------------------------------------------------------------------
    def reachable_blocks(self):
        return {b for (b, _) in self.nodes}

    def return_nodes(self):
        return [n for n in self.nodes if self.body.term(n[0])['k'] == 'return']

    def return_value(self, n):
        """small-int value of `_0` at return node n (None = unknown)"""
        return self._apply_stmts(n[0], self.nodes[n]).get(0)

    def forward_from(self, starts, avoid_blocks=()):
        seen = set(starts)
        dq = deque(starts)
        while dq:
            n = dq.popleft()
            for m in self.edges.get(n, ()):
                if m not in seen and m[0] not in avoid_blocks:
                    seen.add(m)
                    dq.append(m)
        return seen

    def can_reach_return_avoiding(self, avoid_blocks):
        if self.entry[0] in avoid_blocks:
            return False
        for n in self.forward_from([self.entry], avoid_blocks):
            if self.body.term(n[0])['k'] == 'return':
                return True
        return False

    def path_totals(self, weight=None, dims=None, cap=2):
        """{return node: set of saturated effect-total vectors of the paths reaching it}.
        Block weights come from `weight(block)` or from the weigher (which excludes effects of
        synchronously-run closures: those arrive as edge weights of the chosen closure outcome)."""
        if weight is None:
            dims = self.weigher.dims
            wg = self.weigher
            body = self.body
            pb = self.precise_blocks
            weight = lambda b: wg.weight(body, b, own_only=(b in pb))
        zero = tuple([0] * dims)

        def add(v, w):
            return tuple(min(cap, a + b) for a, b in zip(v, w))

        vals = defaultdict(set)
        vals[self.entry].add(zero)
        dq = deque([self.entry])
        # value at a node = totals of everything executed *before* the node's block;
        # leaving a node adds the block weight and the edge (closure outcome) weight
        while dq:
            n = dq.popleft()
            wb = weight(n[0])
            for m in self.edges.get(n, ()):
                ews = self.edge_w.get((n, m)) or {zero}
                new = set()
                for v in vals[n]:
                    for ew in ews:
                        new.add(add(add(v, wb), ew if ew is not None else zero))
                if not new <= vals[m]:
                    vals[m] |= new
                    dq.append(m)
        out = {}
        for n in self.return_nodes():
            wb = weight(n[0])
            out[n] = {add(v, wb) for v in vals[n]}
        return out


def segment_totals(sp, start_blocks, stop_blocks, cap=2):
    """effect totals of path segments that leave a node of `start_blocks` and run until the first
    node of `stop_blocks` or a return.  Returns {('stop'|'return', block): set(vectors)}.
    The start block's own weight is included, the stop block's is not."""
    wg = sp.weigher
    body = sp.body
    dims = wg.dims
    zero = tuple([0] * dims)

    def add(v, w):
        return tuple(min(cap, a + b) for a, b in zip(v, w))

    vals = defaultdict(set)
    dq = deque()
    out = defaultdict(set)
    for n in sp.nodes:
        if n[0] in start_blocks:
            vals[('s', n)].add(zero)
            dq.append(('s', n))
    while dq:
        tag, n = dq.popleft()
        wb = wg.weight(body, n[0], own_only=(n[0] in sp.precise_blocks))
        for m in sp.edges.get(n, ()):
            ews = sp.edge_w.get((n, m)) or {zero}
            new = set()
            for v in vals[(tag, n)]:
                for ew in ews:
                    new.add(add(add(v, wb), ew if ew is not None else zero))
            if m[0] in stop_blocks:
                out[('stop', m[0])] |= new
                continue
            if body.term(m[0])['k'] == 'return':
                wr = wg.weight(body, m[0], own_only=(m[0] in sp.precise_blocks))
                out[('return', m[0])] |= {add(v, wr) for v in new}
                continue
            if not new <= vals[('m', m)]:
                vals[('m', m)] |= new
                dq.append(('m', m))
    return out


def _vadd(a, b, cap=2):
    if a is None:
        return b
    if b is None:
        return a
    return tuple(min(cap, x + y) for x, y in zip(a, b))


def _key(env):
    return tuple(sorted(env.items(), key=lambda kv: str(kv[0])))


def all_assumptions(policies=6):
    out = []
    for p in range(policies):
        for lim in (0, 1):
            for mem in (0, 1):
                for ttl in (0, 1):
                    out.append({'policy': p, 'limit': lim, 'max_memory': mem, 'ttl': ttl})
    return out


def describe(a):
    m = {0: 'None', 1: 'Some', None: '*'}
    return '%s/limit=%s/mem=%s/ttl=%s' % (N.POLICY_VARIANTS[a['policy']] if a.get('policy') is not None else '*',
                                           m[a.get('limit')], m[a.get('max_memory')], m[a.get('ttl')])


class SpecEffects:
    """store / queue / stats effects per block of a body, specialised under a configuration
    assumption; effects of callees (methods of the same cache, helpers, synchronously-run closures)
    are attributed to the call block, themselves specialised under the same assumption.

    Effects are pairs (kind, key tag).  The key tag of a store removal says which *parameter* of
    which function the removed key is (None when it is not a parameter, e.g. a selected victim), so
    that the caller can tell "the operation's own key is replaced/purged" from "another entry is
    evicted"; tags are translated through call arguments and closure captures."""

    KEYED = ('S-',)

    def __init__(self, prog, fields, oracles=None, stop_at_operations=False, classify=None):
        from .effects import classify as default_classify
        self.prog = prog
        self.fields = dict(fields)
        self.oracles = oracles or {}
        self._classify = classify or default_classify
        self._memo = {}
        self._stack = set()
        self.stop = stop_at_operations
        self._res = {}

    def spec(self, body, upvar_env=None):
        return Spec(self.prog, body, self.fields, upvar_env=upvar_env, oracles=self.oracles)

    def key_root(self, body, operand, depth=0):
        """(function body id, parameter index) the operand's value comes from, through identity
        conversions and closure captures; None otherwise"""
        from .origin import Resolver, flatten
        if depth > 6:
            return None
        if body.id not in self._res:
            self._res[body.id] = Resolver(body, value_like=True)
        outs = flatten(self._res[body.id].operand(operand))
        if len(outs) != 1:
            return None
        o = outs[0]
        if o[0] != 'param':
            return None
        if body.kind in ('fn', 'assoc_fn'):
            return (body.id, o[1]) if not o[2] else None
        # closure: param 1 is the environment; field k is capture k
        if o[1] == 1 and len(o[2]) == 1 and o[2][0].isdigit():
            par, ops = self.prog.closure_capture_operands(body)
            k = int(o[2][0])
            if ops is not None and k < len(ops):
                return self.key_root(par, ops[k], depth + 1)
        return None

    def kinds_at(self, body, b):
        """[(kind, tag)] of the primitive effect(s) of the call ending block b"""
        t = body.term(b)
        if t['k'] != 'call':
            return []
        k = self._classify(t)
        if k is None:
            return []
        ks = list(k) if isinstance(k, (list, tuple)) else [k]
        out = []
        for kk in ks:
            tag = None
            if kk in self.KEYED and len(t['args']) > 1:
                tag = self.key_root(body, t['args'][1])
            out.append((kk, tag))
        return out

    def _translate(self, body, b, cb, eff):
        """effect of direct callee cb seen from its call site (body, b)"""
        kind, tag = eff
        if tag is None:
            return eff
        if tag[0] == cb.id:
            t = body.term(b)
            i = tag[1] - 1
            if 0 <= i < len(t['args']):
                return (kind, self.key_root(body, t['args'][i]))
            return (kind, None)
        return eff  # already rooted in an enclosing function (closure capture chain)

    def summary(self, body):
        key = body.id
        if key in self._memo:
            return self._memo[key]
        if key in self._stack:
            return set()
        self._stack.add(key)
        try:
            sp = self.spec(body)
            out = set()
            for b in sp.reachable_blocks():
                out |= set(self.kinds_at(body, b))
                for (cb, how) in self._callees(body, b):
                    for e in self.summary(cb):
                        out.add(self._translate(body, b, cb, e) if how == 'direct' else e)
        finally:
            self._stack.discard(key)
        self._memo[key] = out
        return out

    def _callees(self, body, b, hows=('direct', 'closure')):
        from .effects import OPERATIONS
        out = []
        for (blk, cb, how) in self.prog.call_edges(body):
            if blk != b or how not in hows:
                continue
            if self.stop and cb.name in OPERATIONS:
                continue
            out.append((cb, how))
        return out


class Weigher:
    """Effect-count vectors for path totals.  `vocab` is the ordered list of effect kinds counted;
    a block's weight = its primitive effect (if any) + the may-summary of directly called local
    functions (each kind at most once).  Effects inside synchronously-run closures are *not*
    included here: Spec adds them per closure outcome."""

    def __init__(self, prog, fields, vocab, oracles=None, classify=None, extra=None, own_key=None, descend=True):
        """own_key: (function body id, parameter index) of the key the analysed operation is about;
        a store removal of exactly that key is counted as 'Srepl' (replacement / purge of the
        operation's own entry), any other store removal as 'S-' (a victim)"""
        self.own_key = own_key
        self.descend = descend  # False: only primitive effects of the analysed body (wrappers)
        self.prog = prog
        self.vocab = list(vocab)
        self.dims = len(self.vocab)
        self.idx = {k: i for i, k in enumerate(self.vocab)}
        self.se = SpecEffects(prog, fields, oracles=oracles, classify=classify)
        self.extra = extra  # optional (body, block) -> [kinds] for statement-level effects
        self._memo = {}
        self._children = {}
        self._callee_out = {}
        self.precise_calls = False

    def kinds(self, body, b):
        key = (body.id, b)
        if key in self._memo:
            return self._memo[key]
        effs = list(self.se.kinds_at(body, b))
        for (cb, how) in (self.se._callees(body, b, hows=('direct',)) if self.descend else []):
            for e in sorted(self.se.summary(cb), key=str):
                effs.append(self.se._translate(body, b, cb, e))
        ks = []
        for (k, tag) in effs:
            if k == 'S-' and tag is not None and tag == self.own_key:
                ks.append('Srepl')
            else:
                ks.append(k)
        if self.extra:
            ks += list(self.extra(body, b))
            for (cb, how) in (self.se._callees(body, b, hows=('direct',)) if self.descend else []):
                ks += sorted(self._extra_summary(cb))
        self._memo[key] = ks
        return ks

    def _extra_summary(self, cb):
        s = set()
        if self.extra:
            # statement-level kinds of the callee and of everything it reaches
            seen = set()
            todo = [cb]
            while todo:
                x = todo.pop()
                if x.id in seen:
                    continue
                seen.add(x.id)
                sp = self.se.spec(x)
                for b in sp.reachable_blocks():
                    s |= set(self.extra(x, b))
                    for (blk, c2, how) in self.prog.call_edges(x):
                        if blk == b and how in ('direct', 'closure'):
                            todo.append(c2)
        return s

    def own_kinds(self, body, b):
        """kinds of the block's own primitive effect and statement-level kinds only (no callee summaries)"""
        key = ('own', body.id, b)
        if key in self._memo:
            return self._memo[key]
        ks = []
        for (k, tag) in self.se.kinds_at(body, b):
            ks.append('Srepl' if (k == 'S-' and tag is not None and tag == self.own_key) else k)
        if self.extra:
            ks += list(self.extra(body, b))
        self._memo[key] = ks
        return ks

    def weight(self, body, b, own_only=False):
        v = [0] * self.dims
        for k in (self.own_kinds(body, b) if own_only else self.kinds(body, b)):
            i = self.idx.get(k)
            if i is not None:
                v[i] = min(2, v[i] + 1)
        return tuple(v)

    def for_callee(self, body, b, cb):
        """the weigher to use inside the directly called function cb: same vocabulary and assumptions, the operation's own
        key translated to the callee's parameter that receives it"""
        t = body.term(b)
        ck = None
        if self.own_key is not None:
            for i, a in enumerate(t['args']):
                if self.se.key_root(body, a) == self.own_key:
                    ck = (cb.id, i + 1)
                    break
        key = (cb.id, ck)
        if key not in self._children:
            w = Weigher.__new__(Weigher)
            w.__dict__.update(self.__dict__)
            w.own_key = ck
            w._memo = {}
            w._children = self._children
            w._callee_out = self._callee_out
            self._children[key] = w
        return self._children[key]

    def spec(self, body, upvar_env=None):
        return Spec(self.prog, body, self.se.fields, upvar_env=upvar_env, oracles=self.se.oracles, weigher=self)
