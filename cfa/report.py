"""Per-property run bookkeeping: rule instances, violations, floors, known findings, evidence."""
import hashlib
import json
import os
import sys
import time

VERIF = os.path.dirname(os.path.dirname(os.path.abspath(__file__)))


class Run:
    def __init__(self, pid, tier, explanation, assumptions=()):
        self.pid = pid
        self.tier = tier
        self.t0 = time.time()
        self.explanation = explanation
        self.assumptions = list(assumptions)
        self.instances = []  # (rule, key, verdict, detail)
        self.violations = []  # dict
        self.notes = []
        self.rule_counts = {}
        self.units = {}
        self.digest = None
        self.exhaustive = {}
        self.seed = int(os.environ.get('VERIF_SEED', '0') or 0)

    # -- recording ---------------------------------------------------------------------------
    def ok(self, rule, key, detail=None, trivial=False):
        self.instances.append((rule, key, 'trivial' if trivial else 'held', detail))

    def masked(self, rule, key, why):
        self.instances.append((rule, key, 'masked', why))

    def bad(self, rule, key, what, site=None, path=None, oracle=None):
        self.instances.append((rule, key, 'VIOLATED', what))
        full = '%s:%s:%s' % (self.pid, rule, key)
        for v in self.violations:
            if v['key'] == full:  # same finding at another generated instance: one report, all sites
                v['count'] += 1
                if site and len(v['other_sites']) < 400:
                    v['other_sites'].append(site)
                return
        self.violations.append({'property': self.pid, 'rule': rule, 'key': full, 'what': what, 'site': site, 'path': path,
                                'oracle': oracle, 'count': 1, 'other_sites': []})

    def note(self, text):
        self.notes.append(text)

    def require(self, rule, what, found, floor):
        """fail closed when a rule found fewer anchors than were confirmed by hand"""
        self.rule_counts['%s/%s' % (rule, what)] = found
        if found < floor:
            self.bad(rule, 'fail-closed/%s' % what,
                     'fail-closed: expected at least %d %s, found %d (anchor missing or renamed: the rule would pass vacuously)' % (floor, what, found),
                     oracle='floor')

    # -- finishing ---------------------------------------------------------------------------
    def finish(self):
        known = []
        kf = os.path.join(VERIF, 'known_findings.json')
        if os.path.exists(kf):
            with open(kf) as f:
                known = json.load(f).get('findings', [])
        known_keys = {k['key']: k for k in known if k.get('status') == 'known' and k.get('property') == self.pid}
        unlisted = []
        listed = []
        for v in self.violations:
            if v['key'] in known_keys:
                listed.append(v)
            else:
                unlisted.append(v)
        rdir = os.path.join(VERIF, 'reports', self.pid)
        os.makedirs(rdir, exist_ok=True)
        for v in listed:
            print('KNOWN-FINDING: property=%s %s %s' % (self.pid, v['key'], known_keys[v['key']].get('what') or v['what']))
        for v in unlisted:
            h = hashlib.sha1(v['key'].encode()).hexdigest()[:12]
            rp = os.path.join(rdir, h + '.json')
            with open(rp, 'w') as f:
                json.dump(v, f, indent=1)
            print('VIOLATION property=%s replay=%s' % (self.pid, rp))
            print('  rule=%s key=%s' % (v['rule'], v['key']))
            print('  what: %s' % v['what'])
            if v.get('site'):
                print('  site: %s' % v['site'])
            if v.get('count', 1) > 1:
                print('  (%d instances of this finding; all sites are in the report)' % v['count'])
            if v.get('path'):
                for step in v['path']:
                    print('    via %s' % (step,))
        judged = [i for i in self.instances if i[2] in ('held', 'VIOLATED')]
        distinct = len({(i[0], i[1]) for i in judged})
        per_rule = {}
        for r, k, v, d in self.instances:
            per_rule.setdefault(r, {'held': 0, 'VIOLATED': 0, 'masked': 0, 'trivial': 0})[v] += 1
        samples = []
        seen_rules = set()
        for r, k, v, d in self.instances:
            if r not in seen_rules or v == 'VIOLATED':
                seen_rules.add(r)
                samples.append({'rule': r, 'instance': k, 'verdict': v, 'detail': d})
        samples = samples[:40]
        ev = {
            'property_id': self.pid,
            'tier': self.tier,
            'seed': self.seed,
            'level': 'other',
            'coverage': {
                'explanation': self.explanation,
                'evaluations': len(self.instances),
                'distinct_nontrivial': distinct,
                'rule': 'an evaluation is one rule instance (rule x function/specialisation/fixture/lock class); '
                        'non-trivial = the rule\'s trigger matched and a verdict held/VIOLATED was computed (masked and trivially-absent instances are not counted)',
                'samples': samples,
                'per_rule': per_rule,
                'anchor_counts': self.rule_counts,
                'units': self.units,
                'tree_digest': self.digest,
                'exhaustive_over': self.exhaustive,
                'notes': self.notes[:50],
                'known_findings_matched': [v['key'] for v in listed],
                'checker_cmd': './check %s --tier %s' % (self.pid, self.tier),
            },
            'assumptions': self.assumptions,
            'wall_s': round(time.time() - self.t0, 3),
            'violations': len(unlisted),
        }
        os.makedirs(os.path.join(VERIF, 'evidence'), exist_ok=True)
        with open(os.path.join(VERIF, 'evidence', '%s.json' % self.pid), 'w') as f:
            json.dump(ev, f, indent=1)
        print('%s: %d rule instances (%d judged, %d masked/trivial), %d violation(s), %d known finding(s), %.1fs'
              % (self.pid, len(self.instances), len(judged), len(self.instances) - len(judged), len(unlisted), len(listed), time.time() - self.t0))
        return 1 if unlisted else 0


def fail_closed(pid, tier, msg):
    r = Run(pid, tier, 'extraction failed; nothing was analysed')
    r.bad('extract', 'fail-closed/extraction', 'fail-closed: ' + msg[-1500:], oracle='extraction')
    return r.finish()
