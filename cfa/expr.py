"""Expression reconstruction: the value of an operand as a tree, following single-definition
temporaries.  Deref/borrow plumbing is collapsed; nothing else is.

  ('const', value, ty)            value: int | float | str | None
  ('param', n)                    local n <= arg_count
  ('upvar', k)                    captured variable k of a closure
  ('field', base, name, on)       field projection (`name` may be 'as:Some' for a downcast)
  ('call', name, [args], block, extra)   extra: dict(self_ty, closures, resolved)
  ('bin', op, a, b) / ('un', op, a) / ('cast', a, to) / ('discr', a) / ('ref', a)
  ('agg', kind, [ops])            kind: 'tuple' | 'array' | 'closure:<id>' | '<adt>::<Variant>'
  ('phi', local)                  several definitions
  ('static', id) / ('unknown', why)
"""
from .facts import callee_name

COLLAPSE = (
    'core::ops::deref::Deref::deref', 'core::ops::deref::DerefMut::deref_mut',
    'core::borrow::Borrow::borrow', 'core::borrow::BorrowMut::borrow_mut',
    'core::convert::AsRef::as_ref', 'core::convert::AsMut::as_mut',
)


class Expr:
    def __init__(self, body, collapse_refs=True):
        self.body = body
        self.collapse_refs = collapse_refs
        self._memo = {}

    def operand(self, o, depth=0):
        if 'const' in o:
            c = o['const']
            if 'static' in c:
                return ('static', c['static'])
            for k in ('int', 'float', 'str'):
                if k in c:
                    return ('const', c[k], c.get('ty'))
            if 'fn' in c:
                return ('const', 'fn:' + c['fn']['path'], c.get('ty'))
            if 'uneval' in c:
                return ('static', c['uneval'])
            if 'bytes' in c:
                return ('const', ('bytes', tuple(c['bytes'])), c.get('ty'))
            return ('const', None, c.get('ty'))
        p = o.get('copy') or o.get('move')
        if p is None:
            return ('unknown', 'operand')
        return self.place(p, depth)

    def place(self, p, depth=0):
        e = self.local(p['l'], depth)
        for pe in p.get('proj') or ():
            if pe == 'deref':
                if e[0] == 'ref':
                    e = e[1]
                continue
            if isinstance(pe, dict):
                if 'f' in pe:
                    if e[0] == 'agg' and e[1] == 'tuple' and pe['f'] < len(e[2]):
                        e = e[2][pe['f']]  # field of a freshly built tuple: the operand itself
                        continue
                    e = ('field', e, pe['name'], pe.get('on', ''))
                elif 'dc' in pe:
                    e = ('field', e, 'as:' + pe['dc'], '')
                elif 'idx' in pe:
                    e = ('index', e, self.local(pe['idx'], depth + 1))
                else:
                    e = ('index', e, ('unknown', 'cidx'))
            else:
                e = ('field', e, str(pe), '')
        return e

    def local(self, l, depth=0):
        if l in self._memo:
            return self._memo[l]
        if depth > 40:
            return ('unknown', 'depth')
        body = self.body
        defs = body.defs.get(l, [])
        if not defs:
            if 1 <= l <= body.arg_count:
                r = ('param', l)
            else:
                r = ('unknown', 'nodef:%d' % l)
            self._memo[l] = r
            return r
        if len(defs) > 1:
            r = ('phi', l)
            self._memo[l] = r
            return r
        self._memo[l] = ('phi', l)  # cycle guard
        r = self._def(defs[0], depth + 1)
        self._memo[l] = r
        return r

    def _def(self, d, depth):
        if d[0] == 'stmt':
            rv = d[3]
            return self.rvalue(rv, depth)
        if d[0] == 'call':
            return self.call(d[1], d[2], depth)
        if d[0] == 'yield':
            return ('call', '<yield>', [], d[1], {})
        return ('unknown', 'def')

    def rvalue(self, rv, depth=0):
        if 'use' in rv:
            return self.operand(rv['use'], depth)
        if 'ref' in rv:
            e = self.place(rv['ref'], depth)
            return e if self.collapse_refs else ('ref', e)
        if 'rawptr' in rv:
            return self.place(rv['rawptr'], depth)
        if 'cast' in rv:
            return ('cast', self.operand(rv['cast'], depth), rv.get('to'))
        if 'discr' in rv:
            return ('discr', self.place(rv['discr'], depth))
        if 'bin' in rv:
            return ('bin', rv['bin'], self.operand(rv['a'], depth), self.operand(rv['b'], depth))
        if 'un' in rv:
            return ('un', rv['un'], self.operand(rv['a'], depth))
        if 'agg' in rv:
            k = rv['agg']
            if isinstance(k, dict):
                if 'adt' in k:
                    kind = '%s::%s' % (k['adt'], k['variant'])
                elif 'closure' in k:
                    kind = 'closure:' + k['closure']
                elif 'coroutine' in k:
                    kind = 'coroutine:' + k['coroutine']
                else:
                    kind = str(k)
            else:
                kind = k
            return ('agg', kind, [self.operand(o, depth) for o in rv['ops']])
        if 'tlref' in rv:
            return ('static', rv['tlref'])
        if 'repeat' in rv:
            return ('agg', 'repeat', [self.operand(rv['repeat'], depth)])
        return ('unknown', 'rvalue')

    def call(self, b, t, depth=0):
        cn = callee_name(t)
        args = [self.operand(a, depth) for a in t['args']]
        if cn in COLLAPSE and args:
            return args[0]
        c = t['callee']
        extra = {'self_ty': c.get('self_ty'), 'closures': c.get('closures', []), 'resolved': c.get('resolved'),
                 'substs': c.get('substs', [])}
        return ('call', cn, args, b, extra)


def walk(e):
    """all sub-expressions, pre-order"""
    yield e
    k = e[0]
    if k == 'field':
        yield from walk(e[1])
    elif k == 'call':
        for a in e[2]:
            yield from walk(a)
    elif k == 'bin':
        yield from walk(e[2])
        yield from walk(e[3])
    elif k in ('un',):
        yield from walk(e[2])
    elif k in ('cast', 'discr', 'ref'):
        yield from walk(e[1])
    elif k == 'agg':
        for a in e[2]:
            yield from walk(a)
    elif k == 'index':
        yield from walk(e[1])
        yield from walk(e[2])


def calls_in(e, name=None):
    return [x for x in walk(e) if x[0] == 'call' and (name is None or x[1] == name)]


def strip_casts(e):
    while e[0] == 'cast':
        e = e[1]
    return e


def field_path(e):
    """(root, [names]) of nested field expressions"""
    names = []
    while e[0] == 'field':
        names.append(e[2])
        e = e[1]
    return e, list(reversed(names))


def show(e, depth=0):
    k = e[0]
    if depth > 8:
        return '...'
    if k == 'const':
        return repr(e[1])
    if k == 'param':
        return 'arg%d' % e[1]
    if k == 'field':
        return '%s.%s' % (show(e[1], depth + 1), e[2])
    if k == 'call':
        return '%s(%s)' % (e[1].rsplit('::', 2)[-2] + '::' + e[1].rsplit('::', 1)[-1] if '::' in e[1] else e[1], ', '.join(show(a, depth + 1) for a in e[2]))
    if k == 'bin':
        return '(%s %s %s)' % (show(e[2], depth + 1), e[1], show(e[3], depth + 1))
    if k == 'un':
        return '%s(%s)' % (e[1], show(e[2], depth + 1))
    if k == 'cast':
        return '(%s as %s)' % (show(e[1], depth + 1), e[2])
    if k == 'discr':
        return 'discr(%s)' % show(e[1], depth + 1)
    if k == 'agg':
        return '%s{%s}' % (e[1].rsplit('::', 1)[-1], ', '.join(show(a, depth + 1) for a in e[2]))
    if k == 'phi':
        return 'phi(_%d)' % e[1]
    if k == 'static':
        return 'static:%s' % e[1].rsplit('::', 1)[-1]
    if k == 'index':
        return '%s[%s]' % (show(e[1], depth + 1), show(e[2], depth + 1))
    return '?%s' % (e[1],)
