"""Engine P vocabulary: store / queue / stats effects of call sites, with interprocedural
flattening (an effect performed by a callee is attributed to the call block in the caller)."""
from .facts import callee_name
from .types import parse, strip_refs
from . import names as N

STORE_HM = {
    'insert': 'S+', 'remove': 'S-', 'remove_entry': 'S-', 'clear': 'S0', 'contains_key': 'S?', 'get': 'Sget',
    'get_mut': 'Sgetmut', 'values': 'Siter', 'values_mut': 'Siter', 'keys': 'Siter', 'iter': 'Siter',
    'iter_mut': 'Siter', 'len': 'Slen', 'is_empty': 'Slen', 'retain': 'S-*', 'drain': 'S0', 'entry': 'Sentry',
    'get_key_value': 'Sget', 'extend': 'S+*',
}
STORE_DM = {
    'insert': 'S+', 'remove': 'S-', 'remove_if': 'S-', 'clear': 'S0', 'contains_key': 'S?', 'get': 'Sget',
    'get_mut': 'Sgetmut', 'iter': 'Siter', 'iter_mut': 'Siter', 'len': 'Slen', 'is_empty': 'Slen', 'retain': 'S-*',
    'entry': 'Sentry', 'alter': 'Sgetmut', 'alter_all': 'Siter',
}
QUEUE_VD = {
    'push_back': 'Q>', 'push_front': 'Q<', 'pop_front': 'Q-front', 'pop_back': 'Q-back', 'remove': 'Q-at',
    'retain': 'Q-key', 'retain_mut': 'Q-key', 'clear': 'Q0', 'len': 'Qlen', 'iter': 'Qiter', 'iter_mut': 'Qiter',
    'is_empty': 'Qlen', 'insert': 'Q+at', 'swap_remove_back': 'Q-swap', 'swap_remove_front': 'Q-swap',
    'truncate': 'Q-*', 'drain': 'Q-*', 'front': 'Qpeek', 'back': 'Qpeek', 'get': 'Qpeek', 'contains': 'Q?',
    'append': 'Q>*', 'extend': 'Q>*', 'split_off': 'Q-*', 'rotate_left': 'Qrot', 'rotate_right': 'Qrot',
    'swap': 'Qrot', 'make_contiguous': 'Qiter', 'as_slices': 'Qiter',
}
STATS = {
    'cachelito_core::stats::CacheStats::record_hit': 'hit',
    'cachelito_core::stats::CacheStats::record_miss': 'miss',
}
S_REMOVALS = ('S-', 'S0', 'S-*')
Q_REMOVALS = ('Q-front', 'Q-back', 'Q-at', 'Q-key', 'Q0', 'Q-*', 'Q-swap')
Q_REORDERING = ('Q-swap', 'Qrot', 'Q+at')
Q_INSERTS = ('Q>', 'Q<', 'Q+at', 'Q>*')


def is_store_map_ty(t):
    """HashMap<String, CacheEntry<_>> or DashMap<String, (_, u64, u64)>"""
    t = strip_refs(t)
    if t.kind != 'adt' or len(t.args) < 2:
        return None
    if t.name == N.HASHMAP and t.args[0].text == N.STRING and t.args[1].kind == 'adt' and t.args[1].name == N.ENTRY:
        return 'hm'
    if t.name == N.DASHMAP and t.args[0].text == N.STRING and t.args[1].kind == 'tuple' and len(t.args[1].args) == 3 \
            and t.args[1].args[1].text == 'u64' and t.args[1].args[2].text == 'u64':
        return 'dm'
    return None


def is_queue_ty(t):
    t = strip_refs(t)
    return t.kind == 'adt' and t.name == N.VECDEQUE and t.args and t.args[0].text == N.STRING


def classify(t):
    """effect kind of a call terminator, or None"""
    cn = callee_name(t)
    if cn in STATS:
        return STATS[cn]
    st = t['callee'].get('self_ty')
    if not st:
        return None
    if cn.startswith(N.HM):
        m = cn[len(N.HM):]
        if m in STORE_HM and is_store_map_ty(parse(st)) == 'hm':
            return STORE_HM[m]
    elif cn.startswith(N.DM):
        m = cn[len(N.DM):]
        if m in STORE_DM and is_store_map_ty(parse(st)) == 'dm':
            return STORE_DM[m]
    elif cn.startswith(N.VD):
        m = cn[len(N.VD):]
        if m in QUEUE_VD and is_queue_ty(parse(st)):
            return QUEUE_VD[m]
    return None


OPERATIONS = tuple('%s::%s' % (c, m) for c in N.CACHE_ADTS for m in
                   ('get', 'insert', 'insert_with_memory', 'insert_result', 'insert_result_with_memory', 'clear'))


class Effects:
    def __init__(self, prog, stop_at_operations=False):
        self.prog = prog
        self.stop = stop_at_operations
        self._prim = {}
        self._sum = {}

    def prim(self, body):
        """[(block, kind, terminator)] performed directly by body"""
        if body.id not in self._prim:
            out = []
            for b, t in body.calls():
                k = classify(t)
                if k:
                    out.append((b, k, t))
            self._prim[body.id] = out
        return self._prim[body.id]

    def summary(self, body, _stack=None):
        """set of effect kinds body may perform, transitively (closures passed are assumed run)"""
        if body.id in self._sum:
            return self._sum[body.id]
        _stack = _stack or set()
        if body.id in _stack:
            return set()
        _stack = _stack | {body.id}
        s = {k for (_, k, _) in self.prim(body)}
        for (blk, cb, how) in self.prog.call_edges(body):
            if how in ('stored', 'dyn'):
                continue
            if self.stop and cb.name in OPERATIONS:
                continue  # a whole cache operation: judged on its own, not as part of its caller
            s |= self.summary(cb, _stack)
        if len(_stack) == 1:
            self._sum[body.id] = s
        return s

    def sites(self, body):
        """[(block, kind, chain)] primitives plus callee effects attributed to the call block;
        chain = tuple of body names from body down to the performer"""
        out = [(b, k, (body.name,)) for (b, k, _) in self.prim(body)]
        for (blk, cb, how) in self.prog.call_edges(body):
            if how in ('stored', 'dyn'):
                continue
            if self.stop and cb.name in OPERATIONS:
                continue
            for k in sorted(self.summary(cb)):
                out.append((blk, k, (body.name, cb.name)))
        return out
