"""Decoder for the byte template of core::fmt::Arguments::new (nightly format_args! lowering).

template := ( literal | placeholder )* 0x00
literal  := n (1..=0x7f) followed by n bytes | 0x80 len:u16le bytes
placeholder := 0b11pPaRWF [flags:u32le if F] [width:u16le if W] [precision:u16le if R] [arg_index:u16le if a]
               (P: precision is an argument index, p: width is an argument index)"""


def decode(bs):
    """-> list of ('lit', str) | ('ph', dict) ; None if the bytes are not a well-formed template"""
    out = []
    i = 0
    n = len(bs)
    while True:
        if i >= n:
            return None
        b = bs[i]
        i += 1
        if b == 0:
            return out if i == n else None
        if b < 0x80:
            if i + b > n:
                return None
            out.append(('lit', bytes(bs[i:i + b]).decode('utf-8', 'replace')))
            i += b
        elif b == 0x80:
            if i + 2 > n:
                return None
            ln = bs[i] | (bs[i + 1] << 8)
            i += 2
            if i + ln > n:
                return None
            out.append(('lit', bytes(bs[i:i + ln]).decode('utf-8', 'replace')))
            i += ln
        elif b >= 0xC0:
            ph = {'flags': None, 'width': None, 'precision': None, 'arg': None, 'dyn_width': bool(b & 16), 'dyn_precision': bool(b & 32)}
            if b & 1:
                if i + 4 > n:
                    return None
                ph['flags'] = bs[i] | (bs[i + 1] << 8) | (bs[i + 2] << 16) | (bs[i + 3] << 24)
                i += 4
            for bit, nm in ((2, 'width'), (4, 'precision'), (8, 'arg')):
                if b & bit:
                    if i + 2 > n:
                        return None
                    ph[nm] = bs[i] | (bs[i + 1] << 8)
                    i += 2
            out.append(('ph', ph))
        else:
            return None


def lossy(ph):
    """reason why a placeholder can render two different values identically, or None"""
    if ph['precision'] is not None or ph['dyn_precision']:
        return 'precision .%s truncates the rendering (floats that differ in later digits, long strings under Display)' % (
            '*' if ph['dyn_precision'] else ph['precision'])
    return None


def template_of(call_expr):
    """the decoded template of an `alloc::fmt::format(Arguments::new(template, args))` expression tree, or None"""
    from .expr import calls_in
    for c in calls_in(call_expr):
        if c[1] == 'core::fmt::Arguments::new' and c[2]:
            t = c[2][0]
            while t[0] in ('cast', 'ref', 'deref') and len(t) > 1 and isinstance(t[1], tuple):
                t = t[1]
            if t[0] == 'const' and isinstance(t[1], tuple) and t[1] and t[1][0] == 'bytes':
                return decode(list(t[1][1]))
            return None
    return None
