"""Fact extraction orchestrator: digest of the analysed tree, fixture workspace, one cargo
invocation under the mirfacts wrapper, fail-closed collection of fact files."""
import fcntl
import glob
import hashlib
import json
import os
import shutil
import subprocess
import sys
import time

VERIF = os.path.dirname(os.path.dirname(os.path.abspath(__file__)))
REPO = os.environ.get('VERIF_REPO', '/repo')
WORK = os.path.join(VERIF, 'work')
DRIVER = os.path.join(VERIF, 'mirfacts', 'target', 'release', 'mirfacts')


def _files(root, pats=('.rs', 'Cargo.toml', 'Cargo.lock')):
    out = []
    for dp, dn, fn in os.walk(root):
        dn[:] = [d for d in dn if d not in ('target', '.git', 'work', '__pycache__')]
        for f in fn:
            if f.endswith(pats):
                out.append(os.path.join(dp, f))
    return sorted(out)


def tree_digest(tier):
    h = hashlib.sha256()
    for f in _files(REPO):
        h.update(f.encode())
        with open(f, 'rb') as fh:
            h.update(hashlib.sha256(fh.read()).digest())
    for f in [os.path.join(VERIF, 'mirfacts', 'src', 'main.rs'), os.path.join(VERIF, 'cfa', 'gen_fixtures.py'),
              os.path.join(VERIF, 'cfa', 'gen_witness.py'), os.path.join(VERIF, 'cfa', 'extract.py')] + _files(os.path.join(VERIF, 'selftest')):
        if os.path.exists(f):
            h.update(f.encode())
            with open(f, 'rb') as fh:
                h.update(hashlib.sha256(fh.read()).digest())
    h.update(tier.encode())
    h.update(REPO.encode())
    return h.hexdigest()[:16]


def nightly_sysroot():
    return subprocess.check_output(['rustc', '+nightly', '--print', 'sysroot'], text=True).strip()


def ensure_driver():
    if os.path.exists(DRIVER) and os.path.getmtime(DRIVER) >= os.path.getmtime(os.path.join(VERIF, 'mirfacts', 'src', 'main.rs')):
        return
    subprocess.check_call(['cargo', '+nightly', 'build', '--release', '--offline'], cwd=os.path.join(VERIF, 'mirfacts'),
                          stdout=subprocess.DEVNULL, stderr=subprocess.DEVNULL)


EXPECTED_UNITS = ('cachelito_core', 'fx_sync', 'fx_async', 'selftest')


def _cargo_env(outdir, target, only):
    env = dict(os.environ)
    env['LD_LIBRARY_PATH'] = nightly_sysroot() + '/lib' + (':' + env['LD_LIBRARY_PATH'] if env.get('LD_LIBRARY_PATH') else '')
    env['MIRFACTS_OUT'] = outdir
    env['MIRFACTS_ONLY'] = only
    env['RUSTC_WRAPPER'] = DRIVER
    env.pop('RUSTC_WORKSPACE_WRAPPER', None)
    env['RUSTFLAGS'] = '-Awarnings'
    env['CARGO_TARGET_DIR'] = target
    env['CARGO_NET_OFFLINE'] = 'true'
    env['CARGO_TERM_COLOR'] = 'never'
    env['CARGO_INCREMENTAL'] = '0'  # local crates are rebuilt on every extraction; incremental state would only pile up
    return env


def _forget_local(target):
    """cargo would otherwise consider unchanged local crates fresh and never call the wrapper"""
    for prof in glob.glob(os.path.join(target, '*', '.fingerprint')) + glob.glob(os.path.join(target, '.fingerprint')):
        for d in os.listdir(prof):
            if d.startswith(('cachelito', 'fx_', 'selftest', 'witness')):
                shutil.rmtree(os.path.join(prof, d), ignore_errors=True)
    # the artefacts of the local crates are rebuilt on every extraction anyway; without this the shared target directory grows
    # by one set per analysed tree (scratch copies of /repo have their own package ids)
    LOCAL = ('libcachelito', 'cachelito', 'libfx_', 'fx_', 'libselftest', 'selftest', 'libwitness', 'witness', 'w_')
    try:
        from . import gen_witness
        wn = tuple(c[0] for c in gen_witness.CASES)
        LOCAL = LOCAL + wn + tuple('lib' + x for x in wn)
    except Exception:
        pass
    for deps in glob.glob(os.path.join(target, '*', 'deps')) + glob.glob(os.path.join(target, '*', 'incremental')):
        try:
            for f in os.listdir(deps):
                if f.startswith(LOCAL):
                    pth = os.path.join(deps, f)
                    if os.path.isdir(pth):
                        shutil.rmtree(pth, ignore_errors=True)
                    else:
                        try:
                            os.remove(pth)
                        except OSError:
                            pass
        except OSError:
            pass


def build_workspace(ws, tier):
    from . import gen_fixtures
    if os.path.exists(ws):
        shutil.rmtree(ws)
    os.makedirs(ws)
    info = gen_fixtures.generate(ws, tier, REPO)
    shutil.copytree(os.path.join(VERIF, 'selftest'), os.path.join(ws, 'selftest'),
                    ignore=shutil.ignore_patterns('target', 'Cargo.lock'))
    if REPO != '/repo':
        ct = os.path.join(ws, 'selftest', 'Cargo.toml')
        with open(ct) as f:
            txt = f.read()
        with open(ct, 'w') as f:
            f.write(txt.replace('"/repo/', '"%s/' % REPO))
    members = ['fx_sync', 'fx_async', 'selftest']
    try:
        from . import gen_witness
        gen_witness.generate(os.path.join(ws, 'witness'), REPO)
        members.append('witness')
    except ImportError:
        pass
    with open(os.path.join(ws, 'Cargo.toml'), 'w') as f:
        f.write('[workspace]\nresolver = "2"\nmembers = [%s]\n' % ', '.join('"%s"' % m for m in members))
    shutil.copy(os.path.join(REPO, 'Cargo.lock'), os.path.join(ws, 'Cargo.lock'))
    return info


def extract(tier='quick', verbose=False):
    """returns (facts_dir, meta dict). Raises RuntimeError on failure (callers fail closed)."""
    os.makedirs(WORK, exist_ok=True)
    ensure_driver()
    dg = tree_digest(tier)
    base = os.path.join(WORK, 'facts-%s-%s' % (tier, dg))
    lockf = open(os.path.join(WORK, 'extract.lock'), 'w')
    fcntl.flock(lockf, fcntl.LOCK_EX)
    try:
        marker = os.path.join(base, 'meta.json')
        if os.path.exists(marker):
            os.utime(base, None)  # in use: keeps concurrent runs on other trees from pruning it
            with open(marker) as f:
                return base, json.load(f)
        t0 = time.time()
        if os.path.exists(base):
            shutil.rmtree(base)
        os.makedirs(base)
        ws = os.path.join(WORK, 'ws-%s' % tier)
        info = build_workspace(ws, tier)
        shutil.copy(os.path.join(ws, 'expect.json'), os.path.join(base, 'expect.json'))
        target = os.path.join(WORK, 'target')
        _forget_local(target)
        env = _cargo_env(base, target, ','.join(EXPECTED_UNITS))
        cmd = ['cargo', '+nightly', 'check', '--offline', '--workspace', '--exclude', 'witness', '--lib']
        if 'witness' not in open(os.path.join(ws, 'Cargo.toml')).read():
            cmd = ['cargo', '+nightly', 'check', '--offline', '--workspace', '--lib']
        p = subprocess.run(cmd, cwd=ws, env=env, text=True, capture_output=True)
        log = p.stdout + p.stderr
        with open(os.path.join(base, 'cargo.log'), 'w') as f:
            f.write(log)
        if p.returncode != 0:
            raise RuntimeError('fixture workspace does not build on this tree:\n' + log[-4000:])
        units = {}
        for f in glob.glob(os.path.join(base, '*.json')):
            bn = os.path.basename(f)
            if bn in ('expect.json', 'meta.json', 'witness.json'):
                continue
            units.setdefault(bn.rsplit('-', 1)[0], []).append(bn)
        missing = [u for u in EXPECTED_UNITS if u not in units]
        if missing:
            raise RuntimeError('no fact file for unit(s) %s (wrapper skipped?)' % missing)
        wit = None
        if os.path.isdir(os.path.join(ws, 'witness')):
            from . import gen_witness
            wit = gen_witness.run(ws, env, base)
        # thorough: the repository's own decorated functions (tests and examples), U5
        if tier == 'thorough':
            u5 = os.path.join(base, 'u5')
            os.makedirs(u5)
            env5 = _cargo_env(u5, os.path.join(WORK, 'target-u5'), '')
            env5.pop('MIRFACTS_ONLY')
            env5['MIRFACTS_TESTS'] = '1'
            env5.pop('RUSTC_WRAPPER')
            env5['RUSTC_WORKSPACE_WRAPPER'] = DRIVER
            _forget_local(os.path.join(WORK, 'target-u5'))
            p5 = subprocess.run(['cargo', '+nightly', 'check', '--offline', '--workspace', '--all-targets'], cwd=REPO, env=env5,
                                text=True, capture_output=True)
            with open(os.path.join(base, 'cargo-u5.log'), 'w') as f:
                f.write(p5.stdout + p5.stderr)
            if p5.returncode != 0:
                raise RuntimeError('workspace --all-targets does not build:\n' + (p5.stdout + p5.stderr)[-3000:])
            # no-default-features core (U1')
            u1n = os.path.join(base, 'u1n')
            os.makedirs(u1n)
            env1 = _cargo_env(u1n, os.path.join(WORK, 'target-u5'), 'cachelito_core')
            env1.pop('RUSTC_WRAPPER')
            env1['RUSTC_WORKSPACE_WRAPPER'] = DRIVER
            _forget_local(os.path.join(WORK, 'target-u5'))
            p1 = subprocess.run(['cargo', '+nightly', 'check', '--offline', '-p', 'cachelito-core', '--lib', '--no-default-features'],
                                cwd=REPO, env=env1, text=True, capture_output=True)
            if p1.returncode != 0:
                raise RuntimeError('cachelito-core --no-default-features does not build:\n' + (p1.stdout + p1.stderr)[-3000:])
        meta = {'digest': dg, 'tier': tier, 'units': units, 'fixtures': info, 'extract_s': round(time.time() - t0, 2),
                'witness': wit is not None}
        with open(marker, 'w') as f:
            json.dump(meta, f)
        # keep only the most recent fact sets
        olds = sorted(glob.glob(os.path.join(WORK, 'facts-*')), key=os.path.getmtime)
        for o in olds[:-4]:
            if time.time() - os.path.getmtime(o) > 1800:  # never one that a concurrent run (another tree) may still be reading
                shutil.rmtree(o, ignore_errors=True)
        return base, meta
    finally:
        fcntl.flock(lockf, fcntl.LOCK_UN)
        lockf.close()


if __name__ == '__main__':
    b, m = extract(sys.argv[1] if len(sys.argv) > 1 else 'quick', True)
    print(b)
    print(json.dumps(m, indent=1))
