"""Whole-program view over several fact files: body lookup by generic-free path, call graph with
closure edges."""
from collections import defaultdict
from .facts import strip_generics, callee_name, callee_path

# callees that receive a closure and do NOT run it before returning (they store it)
STORES_CLOSURE = (
    'cachelito_core::invalidation::InvalidationRegistry::register_callback',
    'cachelito_core::invalidation::InvalidationRegistry::register_invalidation_callback',
    'once_cell::sync::Lazy::new', 'std::sync::lazy_lock::LazyLock::new', 'std::thread::local::LocalKey::new',
    'std::thread::spawn', 'alloc::sync::Arc::new', 'alloc::boxed::Box::new',
)
REGISTRATION = {
    'cachelito_core::invalidation::InvalidationRegistry::register_callback': 'clear',
    'cachelito_core::invalidation::InvalidationRegistry::register_invalidation_callback': 'check',
}
DYN_CALLS = ('core::ops::function::Fn::call', 'core::ops::function::FnMut::call_mut', 'core::ops::function::FnOnce::call_once')
ONCE_FAMILY = (
    'std::sync::once::Once::call_once', 'std::sync::once::Once::call_once_force',
    'std::sync::poison::once::Once::call_once', 'std::sync::poison::once::Once::call_once_force',
    'once_cell::sync::OnceCell::get_or_init', 'once_cell::sync::OnceCell::get_or_try_init',
    'std::sync::once_lock::OnceLock::get_or_init', 'once_cell::unsync::OnceCell::get_or_init',
)


class Program:
    def __init__(self, crates):
        self.crates = list(crates)
        self.bodies = {}
        self.by_name = defaultdict(list)
        self.statics = {}
        for c in self.crates:
            for p, b in c.bodies.items():
                # a later crate never overrides an earlier one (core first)
                if p not in self.bodies:
                    self.bodies[p] = b
                    self.by_name[b.name].append(b)
            for p, s in c.statics.items():
                self.statics.setdefault(p, s)
        self._edges = {}
        # closures handed to the invalidation registry, by registration function
        self.registered = {'clear': [], 'check': []}
        for b in list(self.bodies.values()):
            for blk, t in b.calls():
                cn = callee_name(t)
                kind = REGISTRATION.get(cn)
                if kind:
                    for cb in self.closures_passed(t):
                        self.registered[kind].append((cb, b, blk))

    def dyn_call_kind(self, body, t):
        """None, or 'clear' / 'check' / 'user' for a call through a `dyn Fn` object"""
        if callee_name(t) not in DYN_CALLS or not t['args']:
            return None
        a0 = t['args'][0]
        pl = a0.get('move') or a0.get('copy')
        if not pl:
            return None
        ty = body.local_ty(pl['l'])
        if 'dyn ' not in ty:
            return None
        flat = ty.replace("for<'a> ", '').replace("for<'b> ", '').replace("'a ", '').replace("'b ", '')
        if 'Fn()' in flat:
            return 'clear'
        if 'Fn(&(dyn ' in flat or 'Fn(&dyn ' in flat:
            return 'check'
        return 'user'

    def lookup(self, t):
        """bodies a call terminator may enter directly (resolved callee)"""
        c = t['callee']
        out = []
        for key in (c.get('resolved_id'), c.get('id')):
            if key and key in self.bodies:
                return [self.bodies[key]]
        return out

    def closures_passed(self, t):
        c = t['callee']
        out = []
        for p in c.get('closures', ()):
            b = self.bodies.get(p)
            if b is not None:
                out.append(b)
        return out

    def call_edges(self, body):
        """[(block, callee_body, how)] how in direct|closure|stored"""
        if body.id in self._edges:
            return self._edges[body.id]
        out = []
        for b, t in body.calls():
            for cb in self.lookup(t):
                out.append((b, cb, 'direct'))
            cn = callee_name(t)
            stored = cn in STORES_CLOSURE
            for cb in self.closures_passed(t):
                out.append((b, cb, 'stored' if stored else 'closure'))
            dk = self.dyn_call_kind(body, t)
            if dk in ('clear', 'check') and body.name.startswith('cachelito_core::invalidation::'):
                for (cb, _, _) in self.registered[dk]:
                    out.append((b, cb, 'dyn'))
        self._edges[body.id] = out
        return out

    def closure_parent(self, body):
        """(parent body) of a closure/coroutine"""
        if body.kind not in ('closure', 'coroutine'):
            return None
        return self.bodies.get(body.parent)

    def closure_capture_operands(self, body):
        """operands captured by a closure, from the aggregate that builds it in its parent"""
        par = self.closure_parent(body)
        if par is None:
            return None, None
        for b, bl in enumerate(par.blocks):
            for i, st in enumerate(bl['stmts']):
                if st['k'] == 'assign' and 'agg' in st['rv']:
                    k = st['rv']['agg']
                    if isinstance(k, dict) and (k.get('closure') == body.id or k.get('coroutine') == body.id):
                        return par, st['rv']['ops']
        return par, None
