"""Whole-program view over several fact files: body lookup by generic-free path, call graph with
closure edges."""
from collections import defaultdict
from .facts import strip_generics, callee_name, callee_path

# callees that receive a closure and do NOT run it before returning (they store it)
STORES_CLOSURE = (
    'cachelito_core::invalidation::InvalidationRegistry::register_callback',
    'cachelito_core::invalidation::InvalidationRegistry::register_invalidation_callback',
    'once_cell::sync::Lazy::new', 'std::sync::LazyLock::new', 'std::thread::LocalKey::new',
    'std::thread::spawn', 'std::sync::Arc::new', 'std::boxed::Box::new',
)
ONCE_FAMILY = (
    'std::sync::Once::call_once', 'std::sync::Once::call_once_force',
    'once_cell::sync::OnceCell::get_or_init', 'once_cell::sync::OnceCell::get_or_try_init',
    'std::sync::OnceLock::get_or_init', 'once_cell::unsync::OnceCell::get_or_init',
)


class Program:
    def __init__(self, crates):
        self.crates = list(crates)
        self.bodies = {}
        self.by_name = defaultdict(list)
        self.statics = {}
        for c in self.crates:
            for p, b in c.bodies.items():
                # a later crate never overrides an earlier one (core first)
                if p not in self.bodies:
                    self.bodies[p] = b
                    self.by_name[strip_generics(p)].append(b)
            for p, s in c.statics.items():
                self.statics.setdefault(p, s)
        self._edges = {}

    def lookup(self, t):
        """bodies a call terminator may enter directly (resolved callee)"""
        c = t['callee']
        out = []
        for key in (c.get('resolved'), c.get('path')):
            if not key:
                continue
            if key in self.bodies:
                return [self.bodies[key]]
            n = strip_generics(key)
            if n in self.by_name:
                return list(self.by_name[n])
        return out

    def closures_passed(self, t):
        c = t['callee']
        out = []
        for p in c.get('closures', ()):
            b = self.bodies.get(p)
            if b is not None:
                out.append(b)
        return out

    def call_edges(self, body):
        """[(block, callee_body, how)] how in direct|closure|stored"""
        if body.path in self._edges:
            return self._edges[body.path]
        out = []
        for b, t in body.calls():
            for cb in self.lookup(t):
                out.append((b, cb, 'direct'))
            cn = callee_name(t)
            stored = cn in STORES_CLOSURE
            for cb in self.closures_passed(t):
                out.append((b, cb, 'stored' if stored else 'closure'))
        self._edges[body.path] = out
        return out

    def closure_parent(self, body):
        """(parent body) of a closure/coroutine"""
        p = body.path
        idx = p.rfind('::{')
        if idx == -1:
            return None
        return self.bodies.get(p[:idx])

    def closure_capture_operands(self, body):
        """operands captured by a closure, from the aggregate that builds it in its parent"""
        par = self.closure_parent(body)
        if par is None:
            return None, None
        for b, bl in enumerate(par.blocks):
            for i, st in enumerate(bl['stmts']):
                if st['k'] == 'assign' and 'agg' in st['rv']:
                    k = st['rv']['agg']
                    if isinstance(k, dict) and (k.get('closure') == body.path or k.get('coroutine') == body.path):
                        return par, st['rv']['ops']
        return par, None
