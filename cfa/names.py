"""Canonical (definition-site, generic-free) paths of the std / dependency items the rules talk
about.  mirfacts prints paths with `with_no_visible_paths`, so these are independent of re-exports."""

STRING = 'alloc::string::String'
VECDEQUE = 'alloc::collections::vec_deque::VecDeque'
HASHMAP = 'std::collections::hash::map::HashMap'
HASHSET = 'std::collections::hash::set::HashSet'
OPTION = 'core::option::Option'
RESULT = 'core::result::Result'
VEC = 'alloc::vec::Vec'
LAZY = 'once_cell::sync::Lazy'
LOCALKEY = 'std::thread::local::LocalKey'
REFCELL = 'core::cell::RefCell'
DASHMAP = 'dashmap::DashMap'
MUTEX = 'lock_api::mutex::Mutex'
RWLOCK = 'lock_api::rwlock::RwLock'

CORE = 'cachelito_core::'
ENTRY = 'cachelito_core::cache_entry::CacheEntry'
POLICY = 'cachelito_core::eviction_policy::EvictionPolicy'
SCOPE = 'cachelito_core::CacheScope'
GLOBAL = 'cachelito_core::global_cache::GlobalCache'
THREAD = 'cachelito_core::thread_local_cache::ThreadLocalCache'
ASYNC = 'cachelito_core::async_global_cache::AsyncGlobalCache'
STATS = 'cachelito_core::stats::CacheStats'
REGISTRY = 'cachelito_core::invalidation::InvalidationRegistry'
METADATA = 'cachelito_core::invalidation::InvalidationMetadata'
CACHE_ADTS = (GLOBAL, THREAD, ASYNC)

HM_ENTRY = '%s<%s, %s<' % (HASHMAP, STRING, ENTRY)
VD_STR = '%s<%s' % (VECDEQUE, STRING)

DEREF = 'core::ops::deref::Deref::deref'
DEREF_MUT = 'core::ops::deref::DerefMut::deref_mut'
CLONE = 'core::clone::Clone::clone'
TO_STRING = 'alloc::string::ToString::to_string'
PARTIAL_EQ = 'core::cmp::PartialEq::eq'
PARTIAL_NE = 'core::cmp::PartialEq::ne'
DROP_FN = 'core::mem::drop'

HM = HASHMAP + '::'
VD = VECDEQUE + '::'
DM = DASHMAP + '::'

POLICY_VARIANTS = ['FIFO', 'LRU', 'LFU', 'ARC', 'Random', 'TLRU']
