"""What MANIFEST.json claims, per property.  Only properties whose rules exist are listed."""
TRUST = ('Trusted: rustc nightly MIR construction and name resolution; the class abstraction of locks; the reviewed tables (each entry has a reason) in cfa/; '
         'std/dashmap/parking_lot behave as documented; user code does not re-enter the cache. Generated code is judged on a fixture corpus generated from the attribute grammar.')

CLAIMS = {
    'C16': {
        'text': 'Static: no RefCell of a thread-local cache is re-borrowed while a conflicting borrow may be live on any call path (exact for "already borrowed" panics), '
                'explicit panic sites on cache paths are classified, and every library MemoryEstimator returns at least size_of::<Self>() (what makes the checked `estimate - size_of_val` safe); arithmetic overflow on absurd sizes and user-code panics are not decided.',
        'design_ref': 'DESIGN.md section 5 C16', 'note': TRUST, 'technique': 'interprocedural guard held-set dataflow over MIR (RefCell classes) + panic-site classification',
    },
    'C17': {
        'text': 'Static: the lock-order graph over all lock classes (store, queue, DashMap shards, registry tables, stats registry, Once/Lazy) built from every analysed '
                'body incl. generated callbacks is acyclic with no self edge; DashMap references are dropped before other locks; user code runs under no cache lock '
                '(reviewed exceptions). Sound for lock-order deadlocks under the class abstraction; blocking user code is not covered.',
        'design_ref': 'DESIGN.md section 5 C17', 'note': TRUST, 'technique': 'lock-order graph from may-held guard dataflow over MIR, cycle detection',
    },
    'C18': {
        'text': 'Static: necessary condition for consistency under concurrency: every store removal that precedes its queue removal lies with it in one queue critical '
                'section (must-held guard), victim loops tolerate orphans, presence tests that steer an async store are made under the queue lock, no lookup path (tests answering freely) drops a queue slot while the entry stays stored, clear empties both structures, and no update sits inside debug_assert!. Value correctness over interleavings is not decided.',
        'design_ref': 'DESIGN.md section 5 C18', 'note': TRUST, 'technique': 'must-held guard dataflow + store/queue effect pairing over MIR',
    },
    'C20': {
        'text': 'Static: in every generated async wrapper no guard-carrying local is live at any Yield, every store is dominated by the delivery of the body\'s value, '
                'and the future is Send (compile-time witness).',
        'design_ref': 'DESIGN.md section 5 C20', 'note': TRUST, 'technique': 'guard liveness at coroutine Yield terminators in MIR + dominance + compile-fail witness',
    },
}

CLAIMS.update({
    'C04': {
        'text': 'Static: overflow test agrees with its placement (len > limit after insertion / len >= limit before), lies on every storing path; under the overflow oracle every '
                'flavour x policy path removes at most one entry and removes it from store and queue together; stores leave key in both; random victim is a queue position; '
                're-stored keys are de-duplicated; the sync global test counts the queue (what every eviction shortens); the index of every positional queue removal comes from a forward equality search of the same queue; no cache update sits inside debug_assert!; EvictionPolicy == is variant equality. Each run also plants an off-by-one in the facts of every overflow test and requires a report. The numeric bound over histories is the paper induction over these premises.',
        'design_ref': 'DESIGN.md section 5 C04', 'note': TRUST, 'technique': 'configuration-specialised path-sensitive effect totals over MIR + comparison normal forms + dominance',
    },
    'C05': {
        'text': 'Static: oversize and fit tests in exact normal form and placed correctly; oversize leaves no net entry and skips eviction; "fits" evicts nothing; each loop iteration '
                'removes one victim from store and queue or leaves the loop; the tests measure the value component; every library estimator, normalised to a polynomial over size_of / capacity / recursive estimates, equals the reviewed formula (inline size + owned heap capacity). Each run also plants an off-by-one in the facts of every memory test and requires a report. Numeric totals are not decided.',
        'design_ref': 'DESIGN.md section 5 C05', 'note': TRUST, 'technique': 'comparison normal forms with role resolution + oracle-driven path exploration + impl obligations',
    },
    'C06': {
        'text': 'Static: expiry test is AGE_SECS >= TTL on whole seconds; for every flavour x configuration, expired => nothing served, own key purged from store and queue; '
                'fresh => served, nothing removed; birth time written only at store. An off-by-one is planted in the facts of every expiry test on each run. Wall-clock behaviour is not decided.',
        'design_ref': 'DESIGN.md section 5 C06', 'note': TRUST, 'technique': 'comparison normal form + oracle-driven scenario table over specialised MIR paths',
    },
    'C07': {
        'text': 'Static: one queue orientation for store/touch/victim in all flavours and paths; LRU hit re-queues the key on every path when a bound is configured, FIFO hit touches nothing; '
                'a store that has written its entry queues its key before victims are chosen; positional removals use an index from a forward equality search; victim loops skip orphans; no update inside debug_assert!. Victim identity over histories is the paper induction.',
        'design_ref': 'DESIGN.md section 5 C07', 'note': TRUST, 'technique': 'per-configuration effect table on hit paths + orientation table agreement',
    },
    'C08': {
        'text': 'Static: LFU/ARC/TLRU hits count once and (ARC/TLRU) re-queue; counters start at 0; selectors scan the whole queue replacing on <; score is the documented product; '
                'each factor is in a documented abstract normal form (no floor/round/other operation on hits, rank or age); recency polarity and exponent are judged where residents compete. A reversed LFU scan is planted on every run. Float ties / age interval not decided.',
        'design_ref': 'DESIGN.md section 5 C08', 'note': TRUST, 'technique': 'effect table + expression-tree factor/polarity analysis of the selectors',
    },
    'C15': {
        'text': 'Static: exactly one hit/miss record on every lookup path of every flavour x configuration x scenario, hit iff a value is returned; counters are atomic RMW on the '
                'same-named field; registry reset/get touch one entry and the registry table is modified in place under its write lock; generated code registers the static it passes to the cache under the right name and never calls a CacheStats method itself. A hit recorded as a miss is planted on every run.',
        'design_ref': 'DESIGN.md section 5 C15', 'note': TRUST, 'technique': 'path-sensitive counting over specialised MIR + shape rules on stats code + wrapper registration rule',
    },
})

CLAIMS.update({
    'C01': {
        'text': 'Static: wrapper dataflow skeleton (same key to lookup and store; hit returns the looked-up payload, otherwise the body result, which is what is stored), lookups search '
                'under the requested key and return a clone of that entry, every non-oversize store path inserts (key, value) - the store overwrites -, store statics are function-local. '
                'Equality of values over histories is not decided.',
        'design_ref': 'DESIGN.md section 5 C01', 'note': TRUST, 'technique': 'expression-tree dataflow identities on generated wrappers + must-pass-through store insertion on specialised MIR paths',
    },
    'C02': {
        'text': 'Static: each parameter (receiver first) contributes exactly one Debug/to_cache_key part in order, parts joined by a separator that cannot occur unquoted in a Debug '
                'rendering; default key is format!("{:?}", self) - the format_args! byte template is decoded: one placeholder, no precision - and no type has a direct CacheableKey impl. Injectivity of std Debug is trusted.',
        'design_ref': 'DESIGN.md section 5 C02', 'note': TRUST, 'technique': 'key-builder shape rule over the type-checked expansion of a fixture corpus',
    },
    'C03': {
        'text': 'Static: hit returns before the body, miss runs it once and stores once (plain types, no cache_if) in every fixture scenario; with no limit/max_memory/ttl no store removal is '
                'reachable from lookups or stores. Concurrent-miss clause not decided.',
        'design_ref': 'DESIGN.md section 5 C03', 'note': TRUST, 'technique': 'oracle-driven scenario table on wrapper MIR + unbounded-configuration specialisation of the core',
    },
    'C09': {
        'text': 'Static: for every fixture whose resolved return type is Result (six spellings x flavours x memory) and no cache_if, the store is Ok-guarded; core insert_result* store only in '
                'the Ok arm, on every path through it, and have no other cache effect; functions produced by macro_rules! (return type as a ty fragment) are part of the corpus. Alias spellings are a recorded known finding.',
        'design_ref': 'DESIGN.md section 5 C09', 'note': TRUST, 'technique': 'resolved-type vs generated-store agreement on the fixture corpus + control-dependence in core',
    },
    'C10': {
        'text': 'Static: the named cache_if predicate is consulted exactly once per body execution, never on a hit, with (key, result); the store happens exactly on its true edge; sync Result '
                'functions keep the Ok-only store. Predicate families over histories are not decided.',
        'design_ref': 'DESIGN.md section 5 C10', 'note': TRUST, 'technique': 'oracle-driven scenario table on wrapper MIR',
    },
    'C11': {
        'text': 'Static: the named invalidate_on check is consulted once per found entry with (key, cached); cached value returned only on its false edge, true edge re-executes and stores; '
                'stores overwrite in all flavours.',
        'design_ref': 'DESIGN.md section 5 C11', 'note': TRUST, 'technique': 'oracle-driven scenario table on wrapper MIR + must-pass-through store insertion in core',
    },
    'C12': {
        'text': 'Static: registry tables agree between register and the three lookups, every looked-up callback is invoked and counted once, generated code registers name/metadata/clear '
                'callback from the attribute lists before the first lookup, the clear callback empties store and queue of its own function only, and registry tables are modified in place under their write lock (never a modified copy written back).',
        'design_ref': 'DESIGN.md section 5 C12', 'note': TRUST, 'technique': 'table-agreement (sibling) rules on registry MIR + registration/callback shape rules on fixtures',
    },
    'C13': {
        'text': 'Static: conditional callbacks remove exactly the predicate-selected keys from store and queue together and touch only their own statics; the registry routes the predicate to the '
                'named cache / gives each cache its own name; queue removals in callbacks use an index from a forward equality search and none is written inside debug_assert!.',
        'design_ref': 'DESIGN.md section 5 C13', 'note': TRUST, 'technique': 'expression-tree shape rules on generated callbacks and registry routing',
    },
    'C14': {
        'text': 'Static: thread scope can only be built on LocalKey<RefCell<..>>, global scope on process statics (field types + compile-fail witnesses with compiling twins); the scope attribute '
                'selects the matching branch built on statics of the right kind owned by the function. Isolation/sharing is then a type fact.',
        'design_ref': 'DESIGN.md section 5 C14', 'note': TRUST, 'technique': 'type facts + compile-fail witnesses + scope-branch folding on fixtures',
    },
    'C19': {
        'text': 'Static: on a corpus generated from the attribute grammar (families + pairwise cover) constructor constants, policy, scope, store method, key builder, registration names and lists '
                'equal the attribute list; invalid attribute lists are rejected with the macro\'s message and valid twins compile. Behavioural equivalence beyond configuration identity not decided.',
        'design_ref': 'DESIGN.md section 5 C19', 'note': TRUST, 'technique': 'configuration-identity rules on the fixture corpus + compile-fail witness corpus',
    },
})

NOT_APPLICABLE = {}
