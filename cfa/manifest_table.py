"""What MANIFEST.json claims, per property.  Only properties whose rules exist are listed."""
TRUST = ('Trusted: rustc nightly MIR construction and name resolution; the class abstraction of locks; the reviewed tables (each entry has a reason) in cfa/; '
         'std/dashmap/parking_lot behave as documented; user code does not re-enter the cache. Generated code is judged on a fixture corpus generated from the attribute grammar.')

CLAIMS = {
    'C16': {
        'text': 'Static: no RefCell of a thread-local cache is re-borrowed while a conflicting borrow may be live on any call path (exact for "already borrowed" panics), '
                'and explicit panic sites on cache paths are classified; arithmetic overflow and user-code panics are not decided.',
        'design_ref': 'DESIGN.md section 5 C16', 'note': TRUST, 'technique': 'interprocedural guard held-set dataflow over MIR (RefCell classes) + panic-site classification',
    },
    'C17': {
        'text': 'Static: the lock-order graph over all lock classes (store, queue, DashMap shards, registry tables, stats registry, Once/Lazy) built from every analysed '
                'body incl. generated callbacks is acyclic with no self edge; DashMap references are dropped before other locks; user code runs under no cache lock '
                '(reviewed exceptions). Sound for lock-order deadlocks under the class abstraction; blocking user code is not covered.',
        'design_ref': 'DESIGN.md section 5 C17', 'note': TRUST, 'technique': 'lock-order graph from may-held guard dataflow over MIR, cycle detection',
    },
    'C18': {
        'text': 'Static: necessary condition for consistency under concurrency: every store removal that precedes its queue removal lies with it in one queue critical '
                'section (must-held guard), and victim loops tolerate orphans. Value correctness over interleavings is not decided.',
        'design_ref': 'DESIGN.md section 5 C18', 'note': TRUST, 'technique': 'must-held guard dataflow + store/queue effect pairing over MIR',
    },
    'C20': {
        'text': 'Static: in every generated async wrapper no guard-carrying local is live at any Yield, every store is dominated by the delivery of the body\'s value, '
                'and the future is Send (compile-time witness).',
        'design_ref': 'DESIGN.md section 5 C20', 'note': TRUST, 'technique': 'guard liveness at coroutine Yield terminators in MIR + dominance + compile-fail witness',
    },
}

NOT_APPLICABLE = {}
for _p in ['C01', 'C02', 'C03', 'C04', 'C05', 'C06', 'C07', 'C08', 'C09', 'C10', 'C11', 'C12', 'C13', 'C14', 'C15', 'C19']:
    NOT_APPLICABLE[_p] = 'rules not built yet (work in progress; see DESIGN.md section 10 build order)'
