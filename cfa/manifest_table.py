"""What MANIFEST.json claims, per property.  Only properties whose rules exist are listed."""
TRUST = ('Trusted: rustc nightly MIR construction and name resolution; the class abstraction of locks; the reviewed tables (each entry has a reason) in cfa/; '
         'std/dashmap/parking_lot behave as documented; user code does not re-enter the cache. Generated code is judged on a fixture corpus generated from the attribute grammar.')

CLAIMS = {
    'C16': {
        'text': 'Static: no RefCell of a thread-local cache is re-borrowed while a conflicting borrow may be live on any call path (exact for "already borrowed" panics), '
                'and explicit panic sites on cache paths are classified; arithmetic overflow and user-code panics are not decided.',
        'design_ref': 'DESIGN.md section 5 C16', 'note': TRUST, 'technique': 'interprocedural guard held-set dataflow over MIR (RefCell classes) + panic-site classification',
    },
    'C17': {
        'text': 'Static: the lock-order graph over all lock classes (store, queue, DashMap shards, registry tables, stats registry, Once/Lazy) built from every analysed '
                'body incl. generated callbacks is acyclic with no self edge; DashMap references are dropped before other locks; user code runs under no cache lock '
                '(reviewed exceptions). Sound for lock-order deadlocks under the class abstraction; blocking user code is not covered.',
        'design_ref': 'DESIGN.md section 5 C17', 'note': TRUST, 'technique': 'lock-order graph from may-held guard dataflow over MIR, cycle detection',
    },
    'C18': {
        'text': 'Static: necessary condition for consistency under concurrency: every store removal that precedes its queue removal lies with it in one queue critical '
                'section (must-held guard), and victim loops tolerate orphans. Value correctness over interleavings is not decided.',
        'design_ref': 'DESIGN.md section 5 C18', 'note': TRUST, 'technique': 'must-held guard dataflow + store/queue effect pairing over MIR',
    },
    'C20': {
        'text': 'Static: in every generated async wrapper no guard-carrying local is live at any Yield, every store is dominated by the delivery of the body\'s value, '
                'and the future is Send (compile-time witness).',
        'design_ref': 'DESIGN.md section 5 C20', 'note': TRUST, 'technique': 'guard liveness at coroutine Yield terminators in MIR + dominance + compile-fail witness',
    },
}

CLAIMS.update({
    'C04': {
        'text': 'Static: overflow test agrees with its placement (len > limit after insertion / len >= limit before), lies on every storing path; under the overflow oracle every '
                'flavour x policy path removes at most one entry and removes it from store and queue together; stores leave key in both; random victim is a queue position; '
                're-stored keys are de-duplicated. The numeric bound over histories is the paper induction over these premises.',
        'design_ref': 'DESIGN.md section 5 C04', 'note': TRUST, 'technique': 'configuration-specialised path-sensitive effect totals over MIR + comparison normal forms + dominance',
    },
    'C05': {
        'text': 'Static: oversize and fit tests in exact normal form and placed correctly; oversize leaves no net entry and skips eviction; "fits" evicts nothing; each loop iteration '
                'removes one victim from store and queue or leaves the loop; estimator impls count capacity and recurse into each component. Numeric totals are not decided.',
        'design_ref': 'DESIGN.md section 5 C05', 'note': TRUST, 'technique': 'comparison normal forms with role resolution + oracle-driven path exploration + impl obligations',
    },
    'C06': {
        'text': 'Static: expiry test is AGE_SECS >= TTL on whole seconds; for every flavour x configuration, expired => nothing served, own key purged from store and queue; '
                'fresh => served, nothing removed; birth time written only at store. Wall-clock behaviour is not decided.',
        'design_ref': 'DESIGN.md section 5 C06', 'note': TRUST, 'technique': 'comparison normal form + oracle-driven scenario table over specialised MIR paths',
    },
    'C07': {
        'text': 'Static: one queue orientation for store/touch/victim in all flavours and paths; LRU hit re-queues the key on every path when a bound is configured, FIFO hit touches nothing; '
                'victim loops skip orphans. Victim identity over histories is the paper induction.',
        'design_ref': 'DESIGN.md section 5 C07', 'note': TRUST, 'technique': 'per-configuration effect table on hit paths + orientation table agreement',
    },
    'C08': {
        'text': 'Static: LFU/ARC/TLRU hits count once and (ARC/TLRU) re-queue; counters start at 0; selectors scan the whole queue replacing on <; score is the documented product; '
                'recency polarity and exponent are judged where residents compete. Float ties / age interval not decided.',
        'design_ref': 'DESIGN.md section 5 C08', 'note': TRUST, 'technique': 'effect table + expression-tree factor/polarity analysis of the selectors',
    },
    'C15': {
        'text': 'Static: exactly one hit/miss record on every lookup path of every flavour x configuration x scenario, hit iff a value is returned; counters are atomic RMW on the '
                'same-named field; registry reset/get touch one entry; generated code registers the static it passes to the cache under the right name.',
        'design_ref': 'DESIGN.md section 5 C15', 'note': TRUST, 'technique': 'path-sensitive counting over specialised MIR + shape rules on stats code + wrapper registration rule',
    },
})

NOT_APPLICABLE = {}
for _p in ['C01', 'C02', 'C03', 'C09', 'C10', 'C11', 'C12', 'C13', 'C14', 'C19']:
    NOT_APPLICABLE[_p] = 'rules not built yet (work in progress; see DESIGN.md section 10 build order)'
