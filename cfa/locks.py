"""Engine L: lock classes, guard-carrying locals, held sets (may / must), acquisition events,
interprocedural context and the lock-order graph."""
from collections import defaultdict, deque
from .facts import callee_name
from .types import parse, guards_in, strip_refs
from .origin import Resolver, flatten
from .program import ONCE_FAMILY, STORES_CLOSURE

from .names import HM_ENTRY, VD_STR, HASHMAP, STRING, HASHSET


def class_of(fam, payload, recv_fields=()):
    p = payload or ''
    if fam == 'mutex' and p.startswith(VD_STR):
        return 'ORDER'
    if fam == 'rw' and p.startswith(HM_ENTRY):
        return 'STORE_RW'
    if fam == 'cell' and p.startswith(HM_ENTRY):
        return 'TL_STORE'
    if fam == 'cell' and p.startswith(VD_STR):
        return 'TL_ORDER'
    if fam == 'dm':
        q = p.replace(' ', '')
        if q.startswith(STRING + ',(') and q.endswith(',u64,u64)'):
            return 'STORE_DM'
        return 'DM:' + p
    if fam == 'rw' and p.startswith('%s<%s, ' % (HASHMAP, STRING)):
        if '%s<%s' % (HASHSET, STRING) in p:
            for f in reversed(recv_fields):
                if f.endswith('_to_caches'):
                    return 'REG.' + f
            return 'REG.table'
        if 'InvalidationMetadata' in p:
            return 'REG.cache_metadata'
        if 'dyn ' in p and 'Fn(&' in p.replace("for<'a> ", '').replace("for<'a, 'b> ", ''):
            return 'REG.invalidation_check_callbacks'
        if 'dyn ' in p and 'Fn()' in p:
            return 'REG.clear_callbacks'
        if 'CacheStats' in p:
            return 'STATS_REG'
    return '%s:%s' % (fam.upper(), p)


BLOCKING_FAMILIES = ('mutex', 'rw', 'dm')

LOCK_FNS = {
    # generic-free callee path -> (family, mode, returns_guard)
    'lock_api::mutex::Mutex::lock': ('mutex', 'x', True),
    'lock_api::mutex::Mutex::try_lock': ('mutex', 'x', True),
    'lock_api::rwlock::RwLock::read': ('rw', 'r', True),
    'lock_api::rwlock::RwLock::write': ('rw', 'w', True),
    'lock_api::rwlock::RwLock::read_recursive': ('rw', 'r', True),
    'lock_api::rwlock::RwLock::upgradable_read': ('rw', 'w', True),
    'lock_api::rwlock::RwLock::try_read': ('rw', 'r', True),
    'lock_api::rwlock::RwLock::try_write': ('rw', 'w', True),
    'std::sync::poison::mutex::Mutex::lock': ('mutex', 'x', True),
    'std::sync::poison::rwlock::RwLock::read': ('rw', 'r', True),
    'std::sync::poison::rwlock::RwLock::write': ('rw', 'w', True),
    'core::cell::RefCell::borrow': ('cell', 'r', True),
    'core::cell::RefCell::borrow_mut': ('cell', 'w', True),
    'core::cell::RefCell::try_borrow': ('cell', 'r', True),
    'core::cell::RefCell::try_borrow_mut': ('cell', 'w', True),
}
DM_GUARD = ('get', 'get_mut', 'iter', 'iter_mut', 'entry', 'try_get', 'try_get_mut', 'try_entry')
TRY_NAMES = ('try_lock', 'try_read', 'try_write', 'try_borrow', 'try_borrow_mut', 'try_get', 'try_get_mut', 'try_entry')
DM_TRANSIENT = ('insert', 'remove', 'contains_key', 'clear', 'len', 'retain', 'is_empty', 'remove_if',
                'remove_if_mut', 'alter', 'alter_all', 'shrink_to_fit', 'capacity', 'view')
DM_WRITE = ('get_mut', 'iter_mut', 'entry', 'insert', 'remove', 'clear', 'retain', 'remove_if', 'remove_if_mut',
            'alter', 'alter_all', 'try_get_mut', 'try_entry', 'shrink_to_fit')


def _payload_from_self_ty(self_ty):
    t = strip_refs(parse(self_ty or ''))
    if t.kind == 'adt' and t.args:
        return t.args[-1].text
    return ''


class Acq:
    __slots__ = ('cls', 'fam', 'mode', 'guard', 'block', 'body', 'cn', 'span')

    def __init__(self, cls, fam, mode, guard, block, body, cn, span):
        self.cls, self.fam, self.mode, self.guard = cls, fam, mode, guard
        self.block, self.body, self.cn, self.span = block, body, cn, span

    def __repr__(self):
        return 'Acq(%s %s %s @%s bb%d)' % (self.cls, self.mode, 'guard' if self.guard else 'transient', self.body.path, self.block)


def acquisition(body, b, t, res=None):
    """classify the call terminating block b; returns Acq or None"""
    cn = callee_name(t)
    c = t['callee']
    self_ty = c.get('self_ty') or ''
    res = res or Resolver(body, value_like=False)
    if cn in LOCK_FNS:
        fam, mode, guard = LOCK_FNS[cn]
        if True:
            payload = _payload_from_self_ty(self_ty)
            if fam == 'cell':
                st = strip_refs(parse(self_ty))
                payload = st.args[0].text if st.args else ''
            fields = ()
            if t['args']:
                for o in flatten(res.operand(t['args'][0])):
                    if o[0] in ('param', 'static'):
                        fields = o[2]
                    elif o[0] == 'call':
                        fields = o[3]
            return Acq(class_of(fam, payload, fields), fam, mode, guard, b, body, cn, t.get('span'))
    if cn.startswith('dashmap::DashMap::'):
        m = cn.rsplit('::', 1)[1]
        if m in DM_GUARD or m in DM_TRANSIENT:
            st = strip_refs(parse(self_ty))
            payload = ', '.join(a.text for a in st.args[:2]) if st.kind == 'adt' else ''
            mode = 'w' if m in DM_WRITE else 'r'
            return Acq(class_of('dm', payload), 'dm', mode, m in DM_GUARD, b, body, cn, t.get('span'))
    if cn in ONCE_FAMILY:
        return _init_acq(body, b, t, res, cn)
    r = c.get('resolved') or ''
    if cn == 'core::ops::deref::Deref::deref' and (r.startswith('<once_cell::sync::Lazy<') or r.startswith('<std::sync::lazy_lock::LazyLock<')):
        return _init_acq(body, b, t, res, cn)
    return None


def _init_acq(body, b, t, res, cn):
    name = '?'
    if t['args']:
        outs = flatten(res.operand(t['args'][0]))
        names = []
        for o in outs:
            if o[0] == 'static':
                names.append(o[1])
            elif o[0] == 'param':
                names.append('field:' + '.'.join(o[2]) if o[2] else 'param%d' % o[1])
            elif o[0] == 'const':
                d = dict(o[1])
                names.append(str(d.get('uneval') or d.get('ty')))
            else:
                names.append('?')
        name = '|'.join(sorted(set(names)))
    return Acq('INIT:' + name, 'init', 'x', False, b, body, cn, t.get('span'))


class Held:
    """Forward dataflow of guard-carrying locals.  Elements: (local, class, mode).
    may=True: union at joins (over-approximates what may be held);
    may=False: intersection (what must be held)."""

    def __init__(self, body, may=True):
        self.body = body
        self.may = may
        self.res = Resolver(body, value_like=False)
        self.carriers = {}
        for i, l in enumerate(body.locals):
            g = guards_in(parse(l['ty']))
            if g:
                self.carriers[i] = g
        self.acq = {}
        for b, t in body.calls():
            a = acquisition(body, b, t, self.res)
            if a:
                self.acq[b] = a
        self.in_ = {}
        self.before_term = {}
        self._run()

    # helpers
    def _moved_roots(self, ops):
        out = []
        for o in ops:
            if 'move' in o:
                out.append(o['move']['l'])
        return out

    def _gen(self, st, l, cls_hint=None, inherit=None):
        if l not in self.carriers:
            return
        for fam, mode, payload in self.carriers[l]:
            cls = None
            if inherit:
                for (_, c, m) in inherit:
                    cls = c
                    break
            if cls is None:
                cls = cls_hint or class_of(fam, payload)
            st.add((l, cls, mode))

    @staticmethod
    def _kill(st, l):
        for e in [e for e in st if e[0] == l]:
            st.discard(e)

    def _transfer_stmts(self, b, st):
        for s in self.body.blocks[b]['stmts']:
            k = s['k']
            if k == 'dead':
                self._kill(st, s['l'])
            elif k == 'assign':
                rv = s['rv']
                dst = s['dst']
                srcs = []
                if 'use' in rv:
                    srcs = self._moved_roots([rv['use']])
                elif 'agg' in rv:
                    srcs = self._moved_roots(rv['ops'])
                elif 'cast' in rv:
                    srcs = self._moved_roots([rv['cast']])
                inherit = [e for e in st if e[0] in srcs]
                for l in srcs:
                    self._kill(st, l)
                if not dst.get('proj'):
                    self._kill(st, dst['l'])
                    if inherit:
                        self._gen(st, dst['l'], inherit=inherit)
                elif inherit:
                    # moved into a field of dst (e.g. a tuple/struct local): dst now carries it
                    self._gen(st, dst['l'], inherit=inherit)
        return st

    def _edge_states(self, b, st):
        """state after terminator per normal successor"""
        t = self.body.term(b)
        k = t['k']
        out = {}
        if k == 'call':
            srcs = self._moved_roots(t['args'])
            inherit = [e for e in st if e[0] in srcs]
            st2 = set(st)
            for l in srcs:
                self._kill(st2, l)
            dst = t['dst']
            if not dst.get('proj'):
                self._kill(st2, dst['l'])
            a = self.acq.get(b)
            if dst['l'] in self.carriers:
                if a is not None and a.guard:
                    self._gen(st2, dst['l'], cls_hint=a.cls)
                elif inherit:
                    self._gen(st2, dst['l'], inherit=inherit)
                else:
                    self._gen(st2, dst['l'])
            if t.get('target') is not None:
                out[t['target']] = st2
        elif k == 'drop':
            st2 = set(st)
            p = t['place']
            if not p.get('proj'):
                self._kill(st2, p['l'])
            out[t['target']] = st2
        elif k == 'switch':
            # None-edge of an Option<guard>: nothing held through it
            dl = None
            d = t['discr']
            pl = d.get('move') or d.get('copy')
            if pl and not pl.get('proj'):
                for df in self.body.defs.get(pl['l'], []):
                    if df[0] == 'stmt' and 'discr' in df[3]:
                        dp = df[3]['discr']
                        if not dp.get('proj') and dp['l'] in self.carriers:
                            ty = parse(self.body.local_ty(dp['l']))
                            if ty.kind == 'adt' and ty.name == 'core::option::Option':
                                dl = dp['l']
            for v, tb in t['targets']:
                st2 = set(st)
                if dl is not None and v == 0:
                    self._kill(st2, dl)
                out[tb] = out.get(tb, set()) | st2 if tb in out else st2
            ob = t['otherwise']
            out[ob] = (out[ob] | set(st)) if ob in out else set(st)
        else:
            for s in self.body.succ[b]:
                out[s] = set(st)
        return out

    def _run(self):
        body = self.body
        n = body.n
        IN = {0: set()}
        work = deque([0])
        inq = {0}
        edge_out = {}
        while work:
            b = work.popleft()
            inq.discard(b)
            st = set(IN[b])
            st = self._transfer_stmts(b, st)
            self.before_term[b] = frozenset(st)
            outs = self._edge_states(b, st)
            for s, st2 in outs.items():
                if body.blocks[s]['cleanup']:
                    continue
                edge_out[(b, s)] = st2
                if self.may:
                    new = (IN.get(s, set()) | st2)
                else:
                    preds = [edge_out[(p, s)] for p in body.pred[s] if (p, s) in edge_out]
                    new = set.intersection(*preds) if preds else set(st2)
                if s not in IN or new != IN[s]:
                    IN[s] = new
                    if s not in inq:
                        work.append(s)
                        inq.add(s)
        self.in_ = {b: frozenset(s) for b, s in IN.items()}

    def held_at(self, b):
        """held set immediately before the terminator of block b executes"""
        return self.before_term.get(b, frozenset())

    def classes_at(self, b):
        return {(c, m) for (_, c, m) in self.held_at(b)}


class LockWorld:
    """Interprocedural: acquisition events with full (local + context) held sets, lock graph."""

    def __init__(self, prog, roots=None, include=lambda body: True):
        self.prog = prog
        self.include = include
        self.held = {}
        self.bodies = [b for b in prog.bodies.values() if include(b)]
        for b in self.bodies:
            self.held[b.id] = Held(b, may=True)
        # context: body path -> dict class -> (mode, witness chain)
        self.ctx = defaultdict(dict)
        self._propagate()

    def _propagate(self):
        prog = self.prog
        work = deque(self.bodies)
        inq = {b.id for b in self.bodies}
        while work:
            body = work.popleft()
            inq.discard(body.id)
            h = self.held[body.id]
            cctx = self.ctx[body.id]
            for (blk, cb, how) in prog.call_edges(body):
                if cb.id not in self.held:
                    continue
                if how == 'stored':
                    continue
                t = body.term(blk)
                flow = {}
                for c, (m, w) in cctx.items():
                    flow[c] = (m, w)
                for (l, c, m) in h.held_at(blk):
                    # a guard moved into the call is passed, still held
                    flow[c] = (_join_mode(flow.get(c, (None,))[0], m), ((body.id, blk, body.loc(blk)),))
                cn = callee_name(t)
                if how == 'closure' and cn in ONCE_FAMILY:
                    a = h.acq.get(blk)
                    if a is not None:
                        flow[a.cls] = ('x', ((body.id, blk, body.loc(blk)),))
                tgt = self.ctx[cb.id]
                changed = False
                for c, (m, w) in flow.items():
                    if c not in tgt:
                        chain = w if (c in [x[1] for x in h.held_at(blk)] or c.startswith('INIT:')) and c not in cctx else w + ((body.id, blk, body.loc(blk)),)
                        tgt[c] = (m, chain)
                        changed = True
                    else:
                        nm = _join_mode(tgt[c][0], m)
                        if nm != tgt[c][0]:
                            tgt[c] = (nm, tgt[c][1])
                            changed = True
                if changed and cb.id not in inq:
                    work.append(cb)
                    inq.add(cb.id)

    def events(self):
        """every acquisition with the classes held (locally or by a caller) at that moment"""
        for body in self.bodies:
            h = self.held[body.id]
            cctx = self.ctx[body.id]
            for blk, a in h.acq.items():
                heldset = {}
                for c, (m, w) in cctx.items():
                    heldset[c] = (m, w)
                for (l, c, m) in h.held_at(blk):
                    # the receiver's own guard is not "held while acquiring" unless it is another local
                    heldset[c] = (_join_mode(heldset.get(c, (None,))[0], m), ((body.id, blk, body.loc(blk)),))
                yield a, heldset

    def yields(self):
        for body in self.bodies:
            if body.kind != 'coroutine':
                continue
            h = self.held[body.id]
            for b in range(body.n):
                if body.term(b)['k'] == 'yield' and not body.blocks[b]['cleanup']:
                    yield body, b, h.held_at(b)


def _join_mode(a, b):
    if a is None:
        return b
    if a == b:
        return a
    return 'w' if 'w' in (a, b) or 'x' in (a, b) else a
